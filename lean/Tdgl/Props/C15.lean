/-
  C15 — a stopped simulation leaves a clean, readable, truthful output.
  Model: Tdgl/Handler.lean (`createOutput`, `runStageF`, `solveF`) over Tdgl/Runner.lean.
  For every placement of faults (any number, any kind, in the update or in the frame writer, both
  stages), every save interval, every physics, every pre-existing directory content.
-/
import Mathlib.Data.List.Basic
import Mathlib.Order.Basic
import Mathlib.Tactic.Common
import Tdgl.Runner
import Tdgl.Handler

open Tdgl

namespace Tdgl.C15

variable {K S R : Type} [Add K] [LE K] [DecidableLE K] [OfNat K 0]

/-- The name chosen for the output is fresh: neither it nor its `.tmp` companion existed. -/
theorem C15_fresh_name (fuel : ℕ) (s : Option ℕ) (fs fs' : FS) (ser : Option ℕ)
    (h : createOutput fuel s fs = some (ser, fs')) :
    fs (ser, false) = none ∧ fs (ser, true) = none := by
  induction fuel generalizing s with
  | zero => simp [createOutput] at h
  | succ fuel ih =>
    unfold createOutput at h
    cases h1 : fs (s, false) with
    | some x => rw [h1] at h; exact ih _ h
    | none =>
      rw [h1] at h
      cases h2 : fs (s, true) with
      | some x => rw [h2] at h; exact ih _ h
      | none =>
        rw [h2] at h
        simp only [Option.some.injEq, Prod.mk.injEq] at h
        obtain ⟨rfl, _⟩ := h
        exact ⟨h1, h2⟩

/-- Creating the output touches nothing else: every other name (in particular every existing file,
    including an existing file at the requested path and stale `.tmp` files) is exactly as before, and
    the two new files are open and empty. -/
theorem C15_create_touches_only_new (fuel : ℕ) (s : Option ℕ) (fs fs' : FS) (ser : Option ℕ)
    (h : createOutput fuel s fs = some (ser, fs')) :
    (∀ n, n ≠ (ser, false) → n ≠ (ser, true) → fs' n = fs n) ∧
    fs' (ser, false) = some { isOpen := true } ∧ fs' (ser, true) = some { isOpen := true } := by
  induction fuel generalizing s with
  | zero => simp [createOutput] at h
  | succ fuel ih =>
    unfold createOutput at h
    cases h1 : fs (s, false) with
    | some x => rw [h1] at h; exact ih _ h
    | none =>
      rw [h1] at h
      cases h2 : fs (s, true) with
      | some x => rw [h2] at h; exact ih _ h
      | none =>
        rw [h2] at h
        simp only [Option.some.injEq, Prod.mk.injEq] at h
        obtain ⟨rfl, rfl⟩ := h
        refine ⟨?_, ?_, ?_⟩
        · intro n hn1 hn2
          simp only [FS.set, if_neg hn1, if_neg hn2]
        · simp [FS.set]
        · simp [FS.set]

private def rank : Option ℕ → ℕ
  | none => 0
  | some k => k

private theorem create_term_aux (fs : FS) (B : ℕ) (hB : ∀ k b, B ≤ k → fs (some k, b) = none) :
    ∀ (n : ℕ) (s : Option ℕ), 1 ≤ n → B + 2 ≤ n + rank s → ∃ r, createOutput n s fs = some r := by
  intro n
  induction n with
  | zero => intro s h; omega
  | succ n ih =>
    intro s _ h2
    have hnext : rank (nextSerial s) = rank s + 1 := by cases s <;> rfl
    have hfree : n = 0 → fs (s, false) = none ∧ fs (s, true) = none := by
      intro hn; subst hn
      cases s with
      | none => simp only [rank] at h2; omega
      | some k => simp only [rank] at h2; exact ⟨hB k _ (by omega), hB k _ (by omega)⟩
    unfold createOutput
    cases h1 : fs (s, false) with
    | some x =>
      have hn : n ≠ 0 := fun hn => by rw [(hfree hn).1] at h1; cases h1
      exact ih _ (by omega) (by omega)
    | none =>
      cases h3 : fs (s, true) with
      | some x =>
        have hn : n ≠ 0 := fun hn => by rw [(hfree hn).2] at h3; cases h3
        exact ih _ (by omega) (by omega)
      | none => exact ⟨_, rfl⟩

/-- The search for a fresh name terminates when only names with serial `< B` are taken. -/
theorem C15_create_terminates (fs : FS) (B : ℕ)
    (hB : ∀ k b, B ≤ k → fs (some k, b) = none) :
    ∃ r, createOutput (B + 2) none fs = some r :=
  create_term_aux fs B hB (B + 2) none (by omega) (by omega)

/-- the frames carried by an outcome -/
def outcomeFrames : StageOutcome K S R → List (Frame K S R)
  | .finished e _ => e.frames
  | .cancelled e _ => e.frames
  | .raised fr _ => fr
  | .outOfFuel => []

/-- all frames in `fr` are labelled `< b`, lie on the trajectory, and the labels increase -/
private def Good (upd : S → ℕ → K → K × S × R) (s0 : S) (b : ℕ) (fr : List (Frame K S R)) : Prop :=
  (∀ f ∈ fr, f.step < b ∧ f.time = (traj upd s0 f.step).1 ∧ f.snap = (traj upd s0 f.step).2) ∧
  (fr.map (·.step)).Pairwise (· < ·)

omit [LE K] [DecidableLE K] in
private theorem Good.mono {upd : S → ℕ → K → K × S × R} {s0 : S} {b b' : ℕ} {fr : List (Frame K S R)}
    (h : Good upd s0 b fr) (hb : b ≤ b') : Good upd s0 b' fr :=
  ⟨fun f hf => ⟨Nat.lt_of_lt_of_le (h.1 f hf).1 hb, (h.1 f hf).2⟩, h.2⟩

omit [LE K] [DecidableLE K] in
private theorem Good.snoc {upd : S → ℕ → K → K × S × R} {s0 : S} {b i : ℕ} {fr : List (Frame K S R)}
    (h : Good upd s0 b fr) (hb : b ≤ i) (buf : List R) :
    Good upd s0 (i + 1) (fr ++ [mkFrame i (traj upd s0 i).1 (traj upd s0 i).2 buf]) := by
  constructor
  · intro f hf
    rcases List.mem_append.1 hf with h1 | h1
    · exact ⟨by have := (h.1 f h1).1; omega, (h.1 f h1).2⟩
    · simp only [List.mem_singleton] at h1
      subst h1
      exact ⟨Nat.lt_succ_self _, rfl, rfl⟩
  · rw [List.map_append, List.pairwise_append]
    refine ⟨h.2, by simp, ?_⟩
    intro a ha c hc
    simp only [List.map_cons, List.map_nil, List.mem_singleton] at hc
    rw [hc]
    obtain ⟨f, hf, rfl⟩ := List.mem_map.1 ha
    exact Nat.lt_of_lt_of_le (h.1 f hf).1 hb

private def GoodOut (upd : S → ℕ → K → K × S × R) (s0 : S) (o : StageOutcome K S R) : Prop :=
  ∃ b, Good upd s0 b (outcomeFrames o)

omit [LE K] [DecidableLE K] in
private theorem finalSave_good {upd : S → ℕ → K → K × S × R} {s0 : S} (flt : Faults) (save : Bool)
    (k i b : ℕ) (buf : List R) (fr : List (Frame K S R)) (saves : ℕ) (c : Bool)
    (h : Good upd s0 b fr) (hb : i % k ≠ 0 → b ≤ i) :
    GoodOut upd s0 (finalSave flt save k i (traj upd s0 i).1 (traj upd s0 i).2 buf fr saves c) := by
  unfold finalSave
  by_cases hc : save = true ∧ i % k ≠ 0
  · rw [if_pos hc]
    unfold trySave
    cases flt.save saves with
    | none =>
      cases c
      · exact ⟨_, h.snoc (hb hc.2) buf⟩
      · exact ⟨_, h.snoc (hb hc.2) buf⟩
    | some f => exact ⟨_, h⟩
  · rw [if_neg hc]
    cases c
    · exact ⟨_, h⟩
    · exact ⟨_, h⟩

private theorem stage_good (upd : S → ℕ → K → K × S × R) (flt : Faults) (stage : ℕ) (save : Bool)
    (k : ℕ) (T : K) (s0 : S) :
    ∀ (fuel i : ℕ) (buf : List R) (fr : List (Frame K S R)) (saves : ℕ), Good upd s0 i fr →
      GoodOut upd s0
        (runStageF upd flt stage save k T fuel i (traj upd s0 i).1 (traj upd s0 i).2 buf fr saves) := by
  intro fuel
  induction fuel with
  | zero => intro i buf fr saves h; exact ⟨0, by simp [runStageF, outcomeFrames, Good]⟩
  | succ fuel ih =>
    intro i buf fr saves h
    unfold runStageF
    simp only
    have hmid : ∃ b, Good upd s0 b
        (if i % k = 0 ∧ save = true then
          trySave flt saves fr (mkFrame i (traj upd s0 i).1 (traj upd s0 i).2 buf)
          else (none, fr, saves)).2.1 ∧ b ≤ i + 1 ∧ (i % k ≠ 0 → b ≤ i) := by
      by_cases hc : i % k = 0 ∧ save = true
      · rw [if_pos hc]
        unfold trySave
        cases flt.save saves with
        | none => exact ⟨i + 1, h.snoc (Nat.le_refl _) buf, Nat.le_refl _, fun h' => absurd hc.1 h'⟩
        | some f => exact ⟨i, h, Nat.le_succ _, fun _ => Nat.le_refl _⟩
      · rw [if_neg hc]
        exact ⟨i, h, Nat.le_succ _, fun _ => Nat.le_refl _⟩
    generalize (if i % k = 0 ∧ save = true then
          trySave flt saves fr (mkFrame i (traj upd s0 i).1 (traj upd s0 i).2 buf)
          else (none, fr, saves)) = r at hmid ⊢
    obtain ⟨o, fr', saves'⟩ := r
    obtain ⟨b, hg, hb1, hb2⟩ := hmid
    simp only at hg
    cases o with
    | some f =>
      cases f with
      | error => exact ⟨b, hg⟩
      | interrupt => exact finalSave_good flt save k i b _ fr' saves' true hg hb2
    | none =>
      simp only
      by_cases hT : T ≤ (traj upd s0 i).1
      · rw [if_pos hT]
        exact finalSave_good flt save k i b _ fr' saves' false hg hb2
      · rw [if_neg hT]
        cases flt.upd stage i with
        | some f =>
          cases f with
          | error => exact ⟨b, hg⟩
          | interrupt => exact finalSave_good flt save k i b _ fr' saves' true hg hb2
        | none => exact ih (i + 1) _ fr' saves' (hg.mono hb1)

omit [LE K] [DecidableLE K] in
private theorem Good.nil (upd : S → ℕ → K → K × S × R) (s0 : S) :
    Good upd s0 0 ([] : List (Frame K S R)) := by
  simp [Good]

/-- Truthfulness under arbitrary faults: whatever happens, every frame that made it into the output is
    the point of the physics' trajectory that its label names (state after exactly `step` updates, at
    the sum of the first `step` time steps). -/
theorem C15_frames_truthful (upd : S → ℕ → K → K × S × R) (flt : Faults) (stage : ℕ) (save : Bool)
    (k : ℕ) (T : K) (fuel : ℕ) (s0 : S) (f : Frame K S R)
    (hf : f ∈ outcomeFrames (runStageF upd flt stage save k T fuel 0 0 s0 [] [] 0)) :
    f.time = (traj upd s0 f.step).1 ∧ f.snap = (traj upd s0 f.step).2 := by
  obtain ⟨b, hg⟩ := stage_good upd flt stage save k T s0 fuel 0 [] [] 0 (Good.nil upd s0)
  exact (hg.1 f hf).2

/-- ... and their labels are strictly increasing (no frame twice, none out of order). -/
theorem C15_frames_increasing (upd : S → ℕ → K → K × S × R) (flt : Faults) (stage : ℕ) (save : Bool)
    (k : ℕ) (T : K) (fuel : ℕ) (s0 : S) :
    ((outcomeFrames (runStageF upd flt stage save k T fuel 0 0 s0 [] [] 0)).map (·.step)).Pairwise (· < ·) := by
  obtain ⟨b, hg⟩ := stage_good upd flt stage save k T s0 fuel 0 [] [] 0 (Good.nil upd s0)
  exact hg.2

omit [OfNat K 0] in
private theorem refines_aux (upd : S → ℕ → K → K × S × R) (stage : ℕ) (save : Bool) (k : ℕ) (T : K) :
    ∀ (fuel i : ℕ) (t : K) (s : S) (buf : List R) (fr : List (Frame K S R)) (saves : ℕ),
      (match runStageF upd noFaults stage save k T fuel i t s buf fr saves with
        | .finished e _ => some e
        | _ => none) = runStage upd save k T fuel i t s buf fr := by
  intro fuel
  induction fuel with
  | zero => intro i t s buf fr saves; rfl
  | succ fuel ih =>
    intro i t s buf fr saves
    unfold runStageF runStage
    simp only [noFaults, trySave]
    by_cases hc : i % k = 0 ∧ save = true
    · have hn : ¬ (save = true ∧ i % k ≠ 0) := fun h => h.2 hc.1
      simp only [if_pos hc]
      by_cases hT : T ≤ t
      · simp only [if_pos hT, finalSave, if_neg hn]
        rfl
      · simp only [if_neg hT]
        exact ih _ _ _ _ _ _
    · simp only [if_neg hc]
      by_cases hT : T ≤ t
      · simp only [if_pos hT, finalSave, trySave]
        by_cases hn : save = true ∧ i % k ≠ 0
        · simp only [if_pos hn]
          rfl
        · simp only [if_neg hn]
          rfl
      · simp only [if_neg hT]
        exact ih _ _ _ _ _ _

/-- Without faults the fault-injected loop is the loop of `Runner.lean`. -/
theorem C15_no_fault_refines (upd : S → ℕ → K → K × S × R) (stage : ℕ) (save : Bool) (k : ℕ) (T : K)
    (fuel : ℕ) (s0 : S) :
    (match runStageF upd noFaults stage save k T fuel 0 0 s0 [] [] 0 with
      | .finished e _ => some e
      | _ => none) = runStage upd save k T fuel 0 0 s0 [] [] :=
  refines_aux upd stage save k T fuel 0 0 s0 [] [] 0

private theorem solveF_shape (upd : S → ℕ → K → K × S × R) (flt : Faults) (k : ℕ) (skip : Option K)
    (T : K) (fuel : ℕ) (s0 : S) (fs0 fs' : FS) (res : SolveResult) (ser : Option ℕ)
    (h : solveF upd flt k skip T fuel s0 fs0 = some (res, ser, fs')) :
    ∃ (fs1 : FS) (frames : List ℕ), createOutput fuel none fs0 = some (ser, fs1) ∧
      fs' = (fs1.set (ser, false) (some { frames := frames, isOpen := false })).set (ser, true) none := by
  unfold solveF at h
  cases hc : createOutput fuel none fs0 with
  | none => rw [hc] at h; cases h
  | some p =>
    obtain ⟨ser1, fs1⟩ := p
    rw [hc] at h
    simp only at h
    cases skip with
    | none =>
      simp only [Option.some.injEq] at h
      cases hr : runStageF upd flt 1 true k T fuel 0 0 s0 [] [] 0 <;> rw [hr] at h <;>
        simp only [Prod.mk.injEq] at h <;> obtain ⟨_, rfl, rfl⟩ := h <;> exact ⟨_, _, rfl, rfl⟩
    | some Ts =>
      simp only at h
      cases hr0 : runStageF upd flt 0 false k Ts fuel 0 0 s0 [] [] 0 with
      | finished e n =>
        rw [hr0] at h
        simp only [Option.some.injEq] at h
        cases hr : runStageF upd flt 1 true k T fuel 0 0 e.state [] [] 0 <;> rw [hr] at h <;>
          simp only [Prod.mk.injEq] at h <;> obtain ⟨_, rfl, rfl⟩ := h <;> exact ⟨_, _, rfl, rfl⟩
      | cancelled e n =>
        rw [hr0] at h
        simp only [Option.some.injEq, Prod.mk.injEq] at h
        obtain ⟨_, rfl, rfl⟩ := h
        exact ⟨_, _, rfl, rfl⟩
      | raised fr f =>
        rw [hr0] at h
        simp only [Option.some.injEq, Prod.mk.injEq] at h
        obtain ⟨_, rfl, rfl⟩ := h
        exact ⟨_, _, rfl, rfl⟩
      | outOfFuel =>
        rw [hr0] at h
        simp only [Option.some.injEq, Prod.mk.injEq] at h
        obtain ⟨_, rfl, rfl⟩ := h
        exact ⟨_, _, rfl, rfl⟩

/-- Cleanup on every exit path: whatever the faults, after `solveF` the output file is closed and holds
    no partial frame, its `.tmp` companion is gone, and every other name is exactly as it was before the
    run (existing files untouched, no stray files). -/
theorem C15_cleanup (upd : S → ℕ → K → K × S × R) (flt : Faults) (k : ℕ) (skip : Option K) (T : K)
    (fuel : ℕ) (s0 : S) (fs0 fs' : FS) (res : SolveResult) (ser : Option ℕ)
    (h : solveF upd flt k skip T fuel s0 fs0 = some (res, ser, fs')) :
    fs0 (ser, false) = none ∧ fs' (ser, true) = none ∧
    (∃ f, fs' (ser, false) = some f ∧ f.isOpen = false ∧ f.partialFrame = false) ∧
    (∀ n, n ≠ (ser, false) → n ≠ (ser, true) → fs' n = fs0 n) := by
  obtain ⟨fs1, frames, hc, rfl⟩ := solveF_shape upd flt k skip T fuel s0 fs0 fs' res ser h
  have hfresh := C15_fresh_name fuel none fs0 fs1 ser hc
  have hcr := C15_create_touches_only_new fuel none fs0 fs1 ser hc
  refine ⟨hfresh.1, ?_, ?_, ?_⟩
  · simp [FS.set]
  · refine ⟨{ frames := frames, isOpen := false }, ?_, rfl, rfl⟩
    simp [FS.set]
  · intro n hn1 hn2
    simp only [FS.set, if_neg hn1, if_neg hn2]
    exact hcr.1 n hn1 hn2

omit [Add K] [LE K] [DecidableLE K] [OfNat K 0] in
private theorem finalSave_raised (flt : Faults) (save : Bool) (k i : ℕ) (t : K) (s : S) (buf : List R)
    (fr : List (Frame K S R)) (saves : ℕ) (c : Bool) (fr' : List (Frame K S R)) (f : Fault)
    (h : finalSave flt save k i t s buf fr saves c = .raised fr' f) : ∃ j, flt.save j = some f := by
  unfold finalSave trySave at h
  by_cases hc : save = true ∧ i % k ≠ 0
  · rw [if_pos hc] at h
    cases hs : flt.save saves with
    | none => rw [hs] at h; cases c <;> simp at h
    | some g =>
      rw [hs] at h
      simp only [StageOutcome.raised.injEq] at h
      exact ⟨saves, by rw [hs, h.2]⟩
  · rw [if_neg hc] at h
    cases c <;> simp at h

omit [OfNat K 0] in
private theorem raised_cause (upd : S → ℕ → K → K × S × R) (flt : Faults) (stage : ℕ) (save : Bool)
    (k : ℕ) (T : K) :
    ∀ (fuel i : ℕ) (t : K) (s : S) (buf : List R) (fr : List (Frame K S R)) (saves : ℕ)
      (fr' : List (Frame K S R)) (f : Fault),
      runStageF upd flt stage save k T fuel i t s buf fr saves = .raised fr' f →
      (∃ i, flt.upd stage i = some f) ∨ (∃ j, flt.save j = some f) := by
  intro fuel
  induction fuel with
  | zero => intro i t s buf fr saves fr' f h; simp [runStageF] at h
  | succ fuel ih =>
    intro i t s buf fr saves fr' f h
    unfold runStageF at h
    simp only at h
    have hmid : ∀ g, (if i % k = 0 ∧ save = true then trySave flt saves fr (mkFrame i t s buf)
        else (none, fr, saves)).1 = some g → ∃ j, flt.save j = some g := by
      intro g hg
      by_cases hc : i % k = 0 ∧ save = true
      · rw [if_pos hc] at hg
        unfold trySave at hg
        cases hs : flt.save saves with
        | none => rw [hs] at hg; simp at hg
        | some g' =>
          rw [hs] at hg
          simp only [Option.some.injEq] at hg
          exact ⟨saves, by rw [hs, hg]⟩
      · rw [if_neg hc] at hg
        simp at hg
    generalize (if i % k = 0 ∧ save = true then trySave flt saves fr (mkFrame i t s buf)
        else (none, fr, saves)) = r at hmid h
    obtain ⟨o, fr1, saves1⟩ := r
    cases o with
    | some g =>
      cases g with
      | error =>
        simp only [StageOutcome.raised.injEq] at h
        rw [← h.2]
        exact Or.inr (hmid _ rfl)
      | interrupt => exact Or.inr (finalSave_raised _ _ _ _ _ _ _ _ _ _ _ _ h)
    | none =>
      simp only at h
      by_cases hT : T ≤ t
      · rw [if_pos hT] at h
        exact Or.inr (finalSave_raised _ _ _ _ _ _ _ _ _ _ _ _ h)
      · rw [if_neg hT] at h
        cases hu : flt.upd stage i with
        | some g =>
          rw [hu] at h
          cases g with
          | error =>
            simp only [StageOutcome.raised.injEq] at h
            rw [← h.2]
            exact Or.inl ⟨i, hu⟩
          | interrupt => exact Or.inr (finalSave_raised _ _ _ _ _ _ _ _ _ _ _ _ h)
        | none =>
          rw [hu] at h
          exact ih _ _ _ _ _ _ _ _ h

/-- Nothing is invented: if `solve` ends with an exception of some kind, a fault of exactly that kind
    was injected (in the update of some stage or in the frame writer); a fault-free run never raises. -/
theorem C15_exception_has_cause (upd : S → ℕ → K → K × S × R) (flt : Faults) (k : ℕ) (skip : Option K)
    (T : K) (fuel : ℕ) (s0 : S) (fs0 fs' : FS) (ser : Option ℕ) (f : Fault)
    (h : solveF upd flt k skip T fuel s0 fs0 = some (.exception f, ser, fs')) :
    (∃ st i, flt.upd st i = some f) ∨ (∃ j, flt.save j = some f) := by
  have key : ∀ (stage : ℕ) (save : Bool) (T' : K) (s1 : S) (fr : List (Frame K S R)),
      runStageF upd flt stage save k T' fuel 0 0 s1 [] [] 0 = .raised fr f →
      (∃ st i, flt.upd st i = some f) ∨ (∃ j, flt.save j = some f) := by
    intro stage save T' s1 fr hr
    rcases raised_cause upd flt stage save k T' fuel 0 0 s1 [] [] 0 fr f hr with ⟨i, hi⟩ | hj
    · exact Or.inl ⟨stage, i, hi⟩
    · exact Or.inr hj
  unfold solveF at h
  cases hc : createOutput fuel none fs0 with
  | none => rw [hc] at h; cases h
  | some p =>
    obtain ⟨ser1, fs1⟩ := p
    rw [hc] at h
    simp only at h
    have hsim : ∀ (s1 : S) (fs2 : FS) (ser2 : Option ℕ),
        (match runStageF upd flt 1 true k T fuel 0 0 s1 [] [] 0 with
          | .finished e _ => (if e.frames = [] then SolveResult.noSolution else .solution, ser1,
              (fs1.set (ser1, false)
                (some { frames := e.frames.map (·.step), isOpen := false })).set (ser1, true) none)
          | .cancelled e _ => (if e.frames = [] then .noSolution else .solution, ser1,
              (fs1.set (ser1, false)
                (some { frames := e.frames.map (·.step), isOpen := false })).set (ser1, true) none)
          | .raised fr f => (.exception f, ser1,
              (fs1.set (ser1, false)
                (some { frames := fr.map (·.step), isOpen := false })).set (ser1, true) none)
          | .outOfFuel => (.stuck, ser1,
              (fs1.set (ser1, false)
                (some { frames := ([] : List (Frame K S R)).map (·.step), isOpen := false })).set
                  (ser1, true) none)) = (SolveResult.exception f, ser2, fs2) →
        (∃ st i, flt.upd st i = some f) ∨ (∃ j, flt.save j = some f) := by
      intro s1 fs2 ser2 hm
      cases hr : runStageF upd flt 1 true k T fuel 0 0 s1 [] [] 0 with
      | finished e n =>
        rw [hr] at hm
        simp only [Prod.mk.injEq] at hm
        split at hm <;> cases hm.1
      | cancelled e n =>
        rw [hr] at hm
        simp only [Prod.mk.injEq] at hm
        split at hm <;> cases hm.1
      | raised fr g =>
        rw [hr] at hm
        simp only [Prod.mk.injEq, SolveResult.exception.injEq] at hm
        rw [hm.1] at hr
        exact key _ _ _ _ _ hr
      | outOfFuel =>
        rw [hr] at hm
        simp only [Prod.mk.injEq] at hm
        cases hm.1
    cases skip with
    | none =>
      simp only [Option.some.injEq] at h
      exact hsim _ _ _ h
    | some Ts =>
      simp only at h
      cases hr0 : runStageF upd flt 0 false k Ts fuel 0 0 s0 [] [] 0 with
      | finished e n =>
        rw [hr0] at h
        simp only [Option.some.injEq] at h
        exact hsim _ _ _ h
      | cancelled e n =>
        rw [hr0] at h
        simp only [Option.some.injEq, Prod.mk.injEq] at h
        cases h.1
      | raised fr g =>
        rw [hr0] at h
        simp only [Option.some.injEq, Prod.mk.injEq, SolveResult.exception.injEq] at h
        rw [h.1] at hr0
        exact key _ _ _ _ _ hr0
      | outOfFuel =>
        rw [hr0] at h
        simp only [Option.some.injEq, Prod.mk.injEq] at h
        cases h.1

/-- the outcome is not an exception, and carries a frame whenever `ne` holds -/
private def OkOut (o : StageOutcome K S R) (ne : Prop) : Prop :=
  match o with
  | .finished e _ => ne → e.frames ≠ []
  | .cancelled e _ => ne → e.frames ≠ []
  | .raised _ _ => False
  | .outOfFuel => True

omit [Add K] [LE K] [DecidableLE K] [OfNat K 0] in
private theorem OkOut.weaken {o : StageOutcome K S R} {p q : Prop} (h : OkOut o p) (hqp : q → p) :
    OkOut o q := by
  cases o with
  | finished e n => exact fun hq => h (hqp hq)
  | cancelled e n => exact fun hq => h (hqp hq)
  | raised fr f => exact h
  | outOfFuel => exact h

omit [Add K] [LE K] [DecidableLE K] [OfNat K 0] in
private theorem finalSave_ok (flt : Faults) (hsave : ∀ j, flt.save j = none) (save : Bool) (k i : ℕ)
    (t : K) (s : S) (buf : List R) (fr : List (Frame K S R)) (saves : ℕ) (c : Bool) :
    OkOut (finalSave flt save k i t s buf fr saves c) (fr ≠ []) := by
  unfold finalSave trySave
  rw [hsave]
  by_cases hc : save = true ∧ i % k ≠ 0
  · rw [if_pos hc]; cases c <;> simp [OkOut]
  · rw [if_neg hc]; cases c <;> simp [OkOut]

omit [OfNat K 0] in
private theorem stage_ok (upd : S → ℕ → K → K × S × R) (flt : Faults) (stage : ℕ) (save : Bool)
    (k : ℕ) (T : K) (hsave : ∀ j, flt.save j = none) (hupd : ∀ i, flt.upd stage i ≠ some .error) :
    ∀ (fuel i : ℕ) (t : K) (s : S) (buf : List R) (fr : List (Frame K S R)) (saves : ℕ),
      OkOut (runStageF upd flt stage save k T fuel i t s buf fr saves)
        (fr ≠ [] ∨ (i % k = 0 ∧ save = true)) := by
  intro fuel
  induction fuel with
  | zero => intro i t s buf fr saves; simp [runStageF, OkOut]
  | succ fuel ih =>
    intro i t s buf fr saves
    unfold runStageF
    simp only [trySave, hsave]
    by_cases hc : i % k = 0 ∧ save = true
    · simp only [if_pos hc]
      by_cases hT : T ≤ t
      · simp only [if_pos hT]
        exact (finalSave_ok flt hsave _ _ _ _ _ _ _ _ _).weaken (fun _ => by simp)
      · simp only [if_neg hT]
        cases hu : flt.upd stage i with
        | none => exact (ih _ _ _ _ _ _).weaken (fun _ => Or.inl (by simp))
        | some g =>
          cases g with
          | error => exact absurd hu (hupd i)
          | interrupt => exact (finalSave_ok flt hsave _ _ _ _ _ _ _ _ _).weaken (fun _ => by simp)
    · simp only [if_neg hc]
      by_cases hT : T ≤ t
      · simp only [if_pos hT]
        exact (finalSave_ok flt hsave _ _ _ _ _ _ _ _ _).weaken (fun h => h.resolve_right hc)
      · simp only [if_neg hT]
        cases hu : flt.upd stage i with
        | none => exact (ih _ _ _ _ _ _).weaken (fun h => Or.inl (h.resolve_right hc))
        | some g =>
          cases g with
          | error => exact absurd hu (hupd i)
          | interrupt =>
            exact (finalSave_ok flt hsave _ _ _ _ _ _ _ _ _).weaken (fun h => h.resolve_right hc)

/-- Cancellation returns a usable partial solution: if the only faults are KeyboardInterrupts inside
    the update of the recorded stage, the run (long enough fuel) ends with a solution — frame 0 was saved
    before any update. -/
theorem C15_cancel_returns_solution (upd : S → ℕ → K → K × S × R) (flt : Faults) (k : ℕ) (hk : 0 < k)
    (T : K) (fuel : ℕ) (s0 : S) (fs0 fs' : FS) (res : SolveResult) (ser : Option ℕ)
    (hsave : ∀ j, flt.save j = none) (hupd : ∀ st i, flt.upd st i ≠ some .error)
    (h : solveF upd flt k none T fuel s0 fs0 = some (res, ser, fs')) :
    res = .solution ∨ res = .stuck := by
  have hok := stage_ok upd flt 1 true k T hsave (hupd 1) fuel 0 0 s0 [] [] 0
  have hne : ([] : List (Frame K S R)) ≠ [] ∨ (0 % k = 0 ∧ true = true) :=
    Or.inr ⟨Nat.zero_mod k, rfl⟩
  unfold solveF at h
  cases hc : createOutput fuel none fs0 with
  | none => rw [hc] at h; cases h
  | some p =>
    obtain ⟨ser1, fs1⟩ := p
    rw [hc] at h
    simp only [Option.some.injEq] at h
    cases hr : runStageF upd flt 1 true k T fuel 0 0 s0 [] [] 0 with
    | finished e n =>
      rw [hr] at h hok
      simp only [Prod.mk.injEq] at h
      rw [if_neg (hok hne)] at h
      exact Or.inl h.1.symm
    | cancelled e n =>
      rw [hr] at h hok
      simp only [Prod.mk.injEq] at h
      rw [if_neg (hok hne)] at h
      exact Or.inl h.1.symm
    | raised fr g =>
      rw [hr] at hok
      exact hok.elim
    | outOfFuel =>
      rw [hr] at h
      simp only [Prod.mk.injEq] at h
      exact Or.inr h.1.symm

end Tdgl.C15
