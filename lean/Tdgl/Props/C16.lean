/-
  C16 — parameter arithmetic means pointwise arithmetic of its operands.
  Model: Tdgl/Param.lean.  Structural induction: every statement holds for trees of ANY depth.
-/
import Mathlib.Data.List.Basic
import Mathlib.Tactic.Common
import Tdgl.Param

open Tdgl Tdgl.PExpr

namespace Tdgl.C16

variable {K : Type} [OfNat K 0]

-- `[OfNat K 0]` is part of every statement's signature (kept as given) even where the proof does not use it
set_option linter.unusedSectionVars false

/-- Evaluating a composite is: evaluate the operands (each receives `t` only if it is time dependent,
    numbers are themselves), left first, and combine the two values with the operator. -/
theorem C16_pointwise (env : ℕ → K → K → K → K → K) (ap : BinOp → K → K → K)
    (l r : PExpr K) (op : BinOp) (a : Args K) :
    eval env ap (comp l op r) a =
      (operandValue env ap l a).bind (fun vl => (operandValue env ap r a).map (fun vr => ap op vl vr)) := by
  rw [eval]
  cases l <;> cases r <;> simp only [operandValue] <;>
    (repeat' split) <;> simp_all [Except.bind, Except.map]

/-- A composite that is not time dependent ignores the time argument altogether. -/
theorem C16_time_ignored_unless_td (env : ℕ → K → K → K → K → K) (ap : BinOp → K → K → K)
    (l r : PExpr K) (op : BinOp) (a : Args K) (h : (comp l op r).td = false) :
    eval env ap (comp l op r) a = eval env ap (comp l op r) { a with t := none } := by
  have h' : l.td = false ∧ r.td = false := by
    simpa [PExpr.td, Bool.or_eq_false_iff] using h
  obtain ⟨hl, hr⟩ := h'
  rw [eval, eval]
  cases l <;> cases r <;> simp_all

/-- The composite is time dependent exactly when some leaf is. -/
theorem C16_td_iff (e : PExpr K) : e.td = true ↔ ∃ l ∈ e.leaves, l.td = true := by
  induction e with
  | leaf l => simp [PExpr.td, PExpr.leaves]
  | num v => simp [PExpr.td, PExpr.leaves]
  | comp l op r ihl ihr =>
    simp only [PExpr.td, PExpr.leaves, Bool.or_eq_true, List.mem_append, ihl, ihr]
    constructor
    · rintro (⟨x, hx, h⟩ | ⟨x, hx, h⟩)
      · exact ⟨x, Or.inl hx, h⟩
      · exact ⟨x, Or.inr hx, h⟩
    · rintro ⟨x, hx | hx, h⟩
      · exact Or.inl ⟨x, hx, h⟩
      · exact Or.inr ⟨x, hx, h⟩

/-- Equality is structural. -/
theorem C16_eq_structural [DecidableEq K] (e₁ e₂ : PExpr K) : PExpr.beq e₁ e₂ = true ↔ e₁ = e₂ := by
  induction e₁ generalizing e₂ with
  | leaf l => cases e₂ <;> simp [PExpr.beq]
  | num v => cases e₂ <;> simp [PExpr.beq]
  | comp l op r ihl ihr =>
    cases e₂ with
    | leaf _ => simp [PExpr.beq]
    | num _ => simp [PExpr.beq]
    | comp l' op' r' =>
      simp only [PExpr.beq, Bool.and_eq_true, decide_eq_true_eq, ihl, ihr, PExpr.comp.injEq]
      tauto

/-- Operand order is part of the structure: a composite equals the composite with its operands exchanged only when the
    two operands are equal — for every operator, the commutative ones included (`p + q` and `q + p` are different trees,
    and `p ** q`, `q ** p` do not even evaluate alike). -/
theorem C16_eq_swapped_operands [DecidableEq K] (l r : PExpr K) (op : BinOp) :
    PExpr.beq (.comp l op r) (.comp r op l) = true ↔ l = r := by
  rw [C16_eq_structural]
  constructor
  · intro h
    injection h
  · intro h
    subst h
    rfl

/-- Construction is total except for number (op) number, which is a `TypeError`. -/
theorem C16_mk_total (l r : PExpr K) (op : BinOp) :
    (l.isNum = true ∧ r.isNum = true → mk l op r = .error .typeError) ∧
    (¬ (l.isNum = true ∧ r.isNum = true) → mk l op r = .ok (comp l op r)) := by
  unfold mk
  constructor
  · rintro ⟨hl, hr⟩
    simp [hl, hr]
  · intro h
    have : (l.isNum && r.isNum) = false := by
      cases hl : l.isNum <;> cases hr : r.isNum <;> simp_all
    simp [this]

omit [OfNat K 0] in
private theorem readForInit_wf (o : PObj K) (h : o.WellFormed) : o.readForInit = .ok () := by
  cases o with
  | leaf l a => simp only [PObj.WellFormed] at h; subst h; simp [PObj.readForInit, PObj.attrs, Attrs.all]
  | num v => rfl
  | comp l op r a =>
    obtain ⟨ha, -, -⟩ := h
    subst ha; simp [PObj.readForInit, PObj.attrs, Attrs.all]

/-- Nesting is total at any depth and never raises `AttributeError`: from well-formed operands (all slot
    attributes present) the repaired constructor builds a well-formed composite. -/
theorem C16_construct_total (l r : PObj K) (op : BinOp) (hl : l.WellFormed) (hr : r.WellFormed)
    (hn : ¬ (l.isNum = true ∧ r.isNum = true)) :
    ∃ o, PObj.construct Attrs.all l op r = .ok o ∧ o.WellFormed ∧ o.erase = comp l.erase op r.erase := by
  have hn' : (l.isNum && r.isNum) = false := by
    cases h1 : l.isNum <;> cases h2 : r.isNum <;> simp_all
  refine ⟨PObj.comp l op r Attrs.all, ?_, ⟨rfl, hl, hr⟩, rfl⟩
  unfold PObj.construct
  rw [hn', readForInit_wf l hl, readForInit_wf r hr]
  rfl

/- `PObj.clearCache` has no auto-generated equation lemmas (the nested `match` defeats the generator),
   so the unfolding equation is proved by `rfl`; smart unfolding gets stuck on the inner matches. -/
omit [OfNat K 0] in
set_option smartUnfolding false in
private theorem clearCache_comp (l r : PObj K) (op : BinOp) (a : Attrs) :
    (PObj.comp l op r a).clearCache =
      if !a.cache then .error .attributeError else
      match (match r with | .num _ => Except.ok () | r => PObj.clearCache r) with
      | .error e => .error e
      | .ok _ => (match l with | .num _ => .ok () | l => PObj.clearCache l) := by
  cases l <;> cases r <;> rfl

/-- Clearing the caches of a well-formed tree never raises. -/
theorem C16_clear_total (o : PObj K) (h : o.WellFormed) : o.clearCache = .ok () := by
  induction o with
  | leaf l a => simp only [PObj.WellFormed] at h; subst h; rfl
  | num v => rfl
  | comp l op r a ihl ihr =>
    obtain ⟨ha, hl, hr⟩ := h
    subst ha
    have h1 := ihl hl
    have h2 := ihr hr
    rw [clearCache_comp]
    cases l <;> cases r <;> simp_all [Attrs.all]

/-- Pickling and unpickling (repaired `__setstate__`) returns a well-formed object with the same
    expression — hence the same flag, the same values, and it can be cleared and nested again. -/
theorem C16_pickle_roundtrip (o : PObj K) (h : o.WellFormed) :
    (PObj.roundtrip Attrs.all o).WellFormed ∧ (PObj.roundtrip Attrs.all o).erase = o.erase := by
  induction o with
  | leaf l a => exact ⟨h, rfl⟩
  | num v => exact ⟨trivial, rfl⟩
  | comp l op r a ihl ihr =>
    obtain ⟨ha, hl, hr⟩ := h
    obtain ⟨h1, h2⟩ := ihl hl
    obtain ⟨h3, h4⟩ := ihr hr
    exact ⟨⟨rfl, h1, h3⟩, by simp only [PObj.roundtrip, PObj.erase, h2, h4]⟩

/-- objects obtainable from the public operations -/
inductive Reachable : PObj K → Prop where
  | leaf (l : Leaf) : Reachable (PObj.newLeaf l)
  | num (v : K) : Reachable (PObj.num v)
  | construct (l r : PObj K) (op : BinOp) (o : PObj K) :
      Reachable l → Reachable r → PObj.construct Attrs.all l op r = .ok o → Reachable o
  | unpickle (o : PObj K) : Reachable o → Reachable (PObj.roundtrip Attrs.all o)

/-- Every object obtainable by building leaves, nesting with the operators and pickling has all its
    attributes: none of the solver's three calls (`__call__`, `_clear_cache`, use as an operand) can raise
    `AttributeError` on it. -/
theorem C16_reachable_wellformed (o : PObj K) (h : Reachable o) : o.WellFormed := by
  induction h with
  | leaf l => exact rfl
  | num v => exact trivial
  | construct l r op o _ _ hc ihl ihr =>
    unfold PObj.construct at hc
    split at hc
    · cases hc
    · split at hc
      · cases hc
      · split at hc
        · cases hc
        · cases hc
          exact ⟨rfl, ihl, ihr⟩
  | unpickle o _ ih => exact (C16_pickle_roundtrip o ih).1

/-- The pinned upstream tree (`__init__` did not set `_use_cache`) could not nest a time-dependent
    composite: `(P_t * 2) * 3` raised `AttributeError`. -/
theorem C16_old_nesting_counterexample (v w : K) :
    let pt : PObj K := PObj.newLeaf ⟨0, true, true⟩
    ∃ c, PObj.construct ⟨true, false, true⟩ pt .mul (PObj.num v) = .ok c ∧
      PObj.construct ⟨true, false, true⟩ c .mul (PObj.num w) = .error .attributeError := by
  intro pt
  refine ⟨PObj.comp pt .mul (PObj.num v) ⟨true, false, true⟩, ?_, ?_⟩ <;>
    simp [pt, PObj.construct, PObj.readForInit, PObj.attrs, PObj.isNum, PObj.newLeaf, PObj.erase,
      PExpr.td, Attrs.all]

/-- The pinned upstream tree lost the slots on unpickling: a reloaded composite could not even be cleared. -/
theorem C16_old_pickle_counterexample (v : K) :
    let p : PObj K := PObj.comp (PObj.newLeaf ⟨0, false, false⟩) .mul (PObj.num v) Attrs.all
    (PObj.roundtrip ⟨false, false, false⟩ p).clearCache = .error .attributeError := by
  intro p
  simp [p, PObj.roundtrip, clearCache_comp]

end Tdgl.C16
