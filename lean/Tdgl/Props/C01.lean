/-
  C01 — charge is conserved in every cell at every recorded step.
  Any field `K`, any well-formed mesh.  `μ` is ANY vector satisfying the Poisson equation the code
  hands to its sparse LU solver (the solve is an external call; its residual is checked at run time).
-/
import Mathlib.Algebra.BigOperators.Group.Finset.Basic
import Mathlib.Algebra.BigOperators.Ring.Finset
import Mathlib.Algebra.BigOperators.Field
import Mathlib.Algebra.Field.Basic
import Mathlib.Tactic.Ring
import Mathlib.Tactic.Linarith
import Mathlib.Tactic.FieldSimp
import Mathlib.Tactic.LinearCombination
import Tdgl.Lemmas.Sums
import Tdgl.Operators
import Tdgl.Update

open Finset Tdgl

namespace Tdgl.C01

variable {K : Type} [Field K]

/-- `divRow` of the gradient is the Laplacian (same statement as C03, proved locally). -/
private theorem lap_eq_div_grad (m : FVMesh K) (g : ℕ → K) (r : ℕ) :
    lapRow m g r = divRow m (gradEdge m g) r := by
  unfold lapRow divRow gradEdge FVMesh.w
  rw [sumTo_eq, sumTo_eq]
  refine Finset.sum_congr rfl fun e _ => ?_
  split_ifs <;> ring

/-- linearity of the divergence used below: `D(Js + (−Gμ − Ȧ)) = D(Js − Ȧ) − D(Gμ)` -/
private theorem div_total (m : FVMesh K) (js dAdt mu : ℕ → K) (r : ℕ) :
    divRow m (fun e => js e + normalEdge m mu dAdt e) r
      = divRow m (fun e => js e - dAdt e) r - divRow m (gradEdge m mu) r := by
  unfold divRow normalEdge
  rw [sumTo_eq, sumTo_eq, sumTo_eq, ← Finset.sum_sub_distrib]
  refine Finset.sum_congr rfl fun e _ => ?_
  split_ifs <;> ring

/-- Per-cell continuity: if `μ` solves `L μ = D(Js − Ȧ) − B μ_b`, then the divergence of the total
    current `Js + Jn` (with `Jn = −Gμ − Ȧ`) in every cell equals the injected boundary flux of that cell. -/
theorem C01_cell_continuity (m : FVMesh K) (js dAdt mb mu : ℕ → K)
    (hmu : ∀ r, r < m.n → lapRow m mu r = poissonRhs m js dAdt mb r) (r : ℕ) (hr : r < m.n) :
    divRow m (fun e => js e + normalEdge m mu dAdt e) r = neuRow m mb r := by
  have h1 := hmu r hr
  rw [lap_eq_div_grad] at h1
  unfold poissonRhs at h1
  rw [div_total]
  linear_combination (-1 : K) * h1

-- STATEMENT CHANGED: added the hypothesis `(hm : m.WF)`.  Without it the statement is false: if a
-- boundary edge had `e0 (bidx b) = e1 (bidx b) = r` (a self-loop, excluded by `WF.lt` + `WF.bRange`),
-- the left-hand side counts `ℓ_b μ_b` (both halves) while the right-hand side counts `ℓ_b/2 μ_b`.
/-- The injected flux of a cell is its share (half of each incident boundary edge) of the boundary
    current density: `a_r (B μ_b)_r = Σ_{b ∋ r} (ℓ_b / 2) μ_b[b]`. -/
theorem C01_cell_share (m : FVMesh K) (hm : m.WF) (mb : ℕ → K) (r : ℕ) (ha : m.area r ≠ 0)
    (h2 : (2 : K) ≠ 0) :
    m.area r * neuRow m mb r
      = sumTo (fun b => (if m.e0 (m.bidx b) = r ∨ m.e1 (m.bidx b) = r
          then m.len (m.bidx b) / 2 * mb b else 0)) m.nb := by
  unfold neuRow
  rw [sumTo_eq, sumTo_eq, Finset.mul_sum]
  refine Finset.sum_congr rfl fun b hb => ?_
  have hlt := hm.lt _ (hm.bRange b (mem_range.1 hb))
  by_cases h0 : m.e0 (m.bidx b) = r
  · have h1 : m.e1 (m.bidx b) ≠ r := by
      intro h1; rw [h0, h1] at hlt; exact lt_irrefl _ hlt
    rw [if_pos h0, if_neg h1, if_pos (Or.inl h0), h0]
    field_simp
    ring
  · by_cases h1 : m.e1 (m.bidx b) = r
    · rw [if_neg h0, if_pos h1, if_pos (Or.inr h1), h1]
      field_simp
      ring
    · rw [if_neg h0, if_neg h1, if_neg (by tauto)]
      ring

/-- A cell that touches no boundary edge carrying a terminal current (interior cells, cells on
    insulating film edges and on hole edges) has exactly zero net outflow. -/
theorem C01_no_injection (m : FVMesh K) (js dAdt mb mu : ℕ → K)
    (hmu : ∀ r, r < m.n → lapRow m mu r = poissonRhs m js dAdt mb r) (r : ℕ) (hr : r < m.n)
    (hb : ∀ b, b < m.nb → (m.e0 (m.bidx b) = r ∨ m.e1 (m.bidx b) = r) → mb b = 0) :
    divRow m (fun e => js e + normalEdge m mu dAdt e) r = 0 := by
  rw [C01_cell_continuity m js dAdt mb mu hmu r hr]
  unfold neuRow
  rw [sumTo_eq]
  refine Finset.sum_eq_zero fun b hbm => ?_
  have hb' := hb b (mem_range.1 hbm)
  split_ifs with h0 h1 h1
  · rw [hb' (Or.inl h0)]; ring
  · rw [hb' (Or.inl h0)]; ring
  · rw [hb' (Or.inr h1)]; ring
  · ring

/-- Balanced currents: `−(1/L_t) Σ_{t' ≠ t} I_{t'} = I_t / L_t`. -/
theorem C01_terminal_density_balanced (T : ℕ) (cur tlen : ℕ → K) (t : ℕ) (ht : t < T)
    (hbal : sumTo cur T = 0) :
    terminalDensity T cur tlen t = cur t / tlen t := by
  unfold terminalDensity
  rw [sumTo_eq] at hbal ⊢
  have hsplit : ∑ t' ∈ range T, (if t' = t then 0 else cur t')
      = ∑ t' ∈ range T, cur t' - cur t := by
    have : ∀ t' ∈ range T, (if t' = t then 0 else cur t')
        = cur t' - (if t' = t then cur t' else 0) := by
      intro t' _; split_ifs <;> ring
    rw [Finset.sum_congr rfl this, Finset.sum_sub_distrib, Finset.sum_ite_eq' (range T) t,
      if_pos (mem_range.2 ht)]
  rw [hsplit, hbal]
  ring

/-- Units: with `J_scale = 4 c / (ℓ K₀)` (current unit `c`, length unit `ℓ`, both in SI), terminal
    length `L_t = ξ Λ_t` (`Λ_t` = dimensionless length of its boundary edges) and boundary density
    `μ_b = J_scale I_t / L_t`, the physical current `(K₀/4)·(ξ ℓ)·Λ_t·μ_b` entering through the terminal
    is the requested `I_t` in the user's current units (`I_t · c`). -/
theorem C01_terminal_current_units (K0 xi ell c It Lam : K) (hK : K0 ≠ 0) (hxi : xi ≠ 0)
    (hl : ell ≠ 0) (hL : Lam ≠ 0) (h4 : (4 : K) ≠ 0) :
    (K0 / 4) * (xi * ell) * Lam * ((4 * c / (ell * K0)) * It / (xi * Lam)) = It * c := by
  field_simp

end Tdgl.C01
