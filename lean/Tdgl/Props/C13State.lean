/-
  C13 for the loop as it really runs (stateful physics: every Polyak iteration re-applies the Euler step to
  the already updated ψ).  Model: `screenLoopS` in Tdgl/Screening.lean.
-/
import Mathlib.Algebra.Order.Field.Basic
import Mathlib.Algebra.Module.Basic
import Mathlib.Tactic.Common
import Tdgl.Screening

open Tdgl

namespace Tdgl.C13

variable {K : Type} [Field K] [LinearOrder K] [IsStrictOrderedRing K]
variable {V P : Type} [AddCommGroup V] [Module K V]

set_option linter.unusedSectionVars false

private theorem exitS_aux (alpha beta tol : K) (maxIt : ℕ) (phys : P → V → P × V) (kern : V → V)
    (errOf : V → V → K) (pr : P) (A Jr : V) (n : ℕ) (lastErr : Option K) :
    ∀ (fuel it : ℕ) (p : P) (s : PolyakState V) (J : V) (err : Option K),
      screenLoopS alpha beta tol maxIt phys kern errOf fuel it p s J err = .converged pr A Jr n lastErr →
      (∃ e, lastErr = some e ∧ e < tol) ∧ it ≤ n ∧ (err = none → it < n) := by
  intro fuel
  induction fuel with
  | zero => intro it p s J err h; simp [screenLoopS] at h
  | succ fuel ih =>
    intro it p s J err h
    unfold screenLoopS at h
    split_ifs at h with h1 h2
    · cases err with
      | none => simp at h1
      | some e =>
        simp only [decide_eq_true_eq] at h1
        injection h with hp hA hJ hn hl
        exact ⟨⟨e, hl.symm, h1⟩, le_of_eq hn, fun h0 => by cases h0⟩
    · obtain ⟨h3, h4, _⟩ := ih _ _ _ _ _ h
      exact ⟨h3, by omega, fun _ => by omega⟩

private theorem stateS_aux (alpha beta tol : K) (maxIt : ℕ) (phys : P → V → P × V) (kern : V → V)
    (errOf : V → V → K) (pr : P) (A Jr : V) (n : ℕ) (lastErr : Option K) :
    ∀ (fuel it : ℕ) (p : P) (s : PolyakState V) (J : V) (err : Option K),
      (err = none ∨ ∃ (pp : P) (sp : PolyakState V), (p, J) = phys pp sp.A ∧
        s.A = (polyak alpha beta sp (kern J)).A ∧ err = some (errOf (kern J - sp.A) s.A)) →
      screenLoopS alpha beta tol maxIt phys kern errOf fuel it p s J err = .converged pr A Jr n lastErr →
      ∃ (pp : P) (sp : PolyakState V), (pr, Jr) = phys pp sp.A ∧ A = (polyak alpha beta sp (kern Jr)).A ∧
        lastErr = some (errOf (kern Jr - sp.A) A) := by
  intro fuel
  induction fuel with
  | zero => intro it p s J err _ h; simp [screenLoopS] at h
  | succ fuel ih =>
    intro it p s J err hQ h
    unfold screenLoopS at h
    split_ifs at h with h1 h2
    · injection h with hp hA hJ hn hl
      subst hp hA hJ hl
      rcases hQ with rfl | hQ
      · simp at h1
      · exact hQ
    · exact ih _ _ _ _ _ (Or.inr ⟨p, s, rfl, rfl, rfl⟩) h

private theorem failS_aux (alpha beta tol : K) (maxIt : ℕ) (phys : P → V → P × V) (kern : V → V)
    (errOf : V → V → K) (hbad : ∀ dA A, ¬ errOf dA A < tol) :
    ∀ (fuel it : ℕ) (p : P) (s : PolyakState V) (J : V) (err : Option K),
      (err = none ∨ ∃ dA A, err = some (errOf dA A)) → it ≤ maxIt + 1 → maxIt + 2 - it ≤ fuel →
      screenLoopS alpha beta tol maxIt phys kern errOf fuel it p s J err = .failed (maxIt + 1) := by
  intro fuel
  induction fuel with
  | zero => intro it p s J err _ h1 h2; omega
  | succ fuel ih =>
    intro it p s J err herr h1 h2
    unfold screenLoopS
    split_ifs with h0 h3
    · exfalso
      rcases herr with rfl | ⟨dA, A, rfl⟩
      · simp at h0
      · simp [hbad] at h0
    · have : it = maxIt + 1 := by omega
      rw [this]
    · exact ih _ _ _ _ _ (Or.inr ⟨_, _, rfl⟩) (by omega) (by omega)

/-- Exit only below tolerance, after at least one iteration — whatever the physics does to its state. -/
theorem C13_stateful_exit (alpha beta tol : K) (maxIt : ℕ) (phys : P → V → P × V) (kern : V → V)
    (errOf : V → V → K) (fuel : ℕ) (p0 : P) (s0 : PolyakState V) (J0 : V)
    (p : P) (A J : V) (it : ℕ) (lastErr : Option K)
    (h : screenLoopS alpha beta tol maxIt phys kern errOf fuel 0 p0 s0 J0 none = .converged p A J it lastErr) :
    0 < it ∧ ∃ e, lastErr = some e ∧ e < tol := by
  obtain ⟨h1, _, h3⟩ :=
    exitS_aux alpha beta tol maxIt phys kern errOf p A J it lastErr fuel 0 p0 s0 J0 none h
  exact ⟨h3 rfl, h1⟩

/-- The returned triple is the state of the tested iteration: there are a previous physics state `pp` and
    Polyak state `sp` with `(p, J) = phys pp sp.A`, `A` the heavy-ball update with `kern J`, and the tested
    error is the one of that update — so the stored currents and the stored potential belong together. -/
theorem C13_stateful_exit_state (alpha beta tol : K) (maxIt : ℕ) (phys : P → V → P × V) (kern : V → V)
    (errOf : V → V → K) (fuel : ℕ) (p0 : P) (s0 : PolyakState V) (J0 : V)
    (p : P) (A J : V) (it : ℕ) (lastErr : Option K)
    (h : screenLoopS alpha beta tol maxIt phys kern errOf fuel 0 p0 s0 J0 none = .converged p A J it lastErr) :
    ∃ (pp : P) (sp : PolyakState V), (p, J) = phys pp sp.A ∧ A = (polyak alpha beta sp (kern J)).A ∧
      lastErr = some (errOf (kern J - sp.A) A) := by
  exact stateS_aux alpha beta tol maxIt phys kern errOf p A J it lastErr fuel 0 p0 s0 J0 none
    (Or.inl rfl) h

/-- Non-convergence raises after `maxIt + 1` iterations. -/
theorem C13_stateful_no_silent_nonconvergence (alpha beta tol : K) (maxIt : ℕ) (phys : P → V → P × V)
    (kern : V → V) (errOf : V → V → K) (p0 : P) (s0 : PolyakState V) (J0 : V)
    (hbad : ∀ dA A, ¬ errOf dA A < tol) :
    screenLoopS alpha beta tol maxIt phys kern errOf (maxIt + 3) 0 p0 s0 J0 none = .failed (maxIt + 1) := by
  exact failS_aux alpha beta tol maxIt phys kern errOf hbad (maxIt + 3) 0 p0 s0 J0 none (Or.inl rfl)
    (by omega) (by omega)

/-- The stateless loop of `C13_exit` is the special case of a physics that ignores its state. -/
theorem C13_stateless_is_special_case (alpha beta tol : K) (maxIt : ℕ) (phys0 kern : V → V)
    (errOf : V → V → K) (fuel it : ℕ) (p : P) (s : PolyakState V) (J : V) (err : Option K) :
    (match screenLoopS alpha beta tol maxIt (fun q A => (q, phys0 A)) kern errOf fuel it p s J err with
      | .converged _ A J n e => ScreenResult.converged A J n e
      | .failed n => ScreenResult.failed n
      | .outOfFuel => ScreenResult.outOfFuel)
    = screenLoop alpha beta tol maxIt phys0 kern errOf fuel it s J err := by
  induction fuel generalizing it p s J err with
  | zero => simp [screenLoopS, screenLoop]
  | succ fuel ih =>
    unfold screenLoopS screenLoop
    split_ifs with h1 h2
    · rfl
    · rfl
    · exact ih _ _ _ _ _

end Tdgl.C13
