/-
  Non-vacuity witnesses.

  A property theorem whose hypotheses no object satisfies would be vacuously true.  For the theorems in
  `Tdgl/Props/C*.lean` that carry hypotheses this file exhibits concrete, non-trivial objects (over `ℚ`,
  `ℕ`, `String`) that satisfy the hypotheses jointly, and — where cheap — applies the property theorem
  to the witness.
-/
import Mathlib.Tactic.NormNum
import Mathlib.Tactic.IntervalCases
import Mathlib.Tactic.FinCases
import Mathlib.Data.Rat.Defs
import Mathlib.Algebra.Order.Field.Rat
import Mathlib.Logic.Relation
import Tdgl.Props.C01
import Tdgl.Props.C02
import Tdgl.Props.C03
import Tdgl.Props.C04
import Tdgl.Props.C05
import Tdgl.Props.C06
import Tdgl.Props.C07
import Tdgl.Props.C08
import Tdgl.Props.C09
import Tdgl.Props.C10
import Tdgl.Props.C11
import Tdgl.Props.C12
import Tdgl.Props.C13
import Tdgl.Props.C14
import Tdgl.Props.C15
import Tdgl.Props.C16
import Tdgl.Props.C17
import Tdgl.Props.C18
import Tdgl.Props.C19
import Tdgl.Props.C20

open Tdgl

namespace Tdgl.NonVacuity

/-! ## 1. A concrete finite-volume mesh over `ℚ` (C01, C03, C10)

Four sites, two triangles `(0,1,2)` and `(1,2,3)` sharing the edge `(1,2)`:

```
      1
    / | \
   0  |  3
    \ | /
      2
```
edges `0:(0,1) 1:(0,2) 2:(1,2) 3:(1,3) 4:(2,3)`; the boundary edges are the four outer ones. -/

def e0f : ℕ → ℕ
  | 0 => 0 | 1 => 0 | 2 => 1 | 3 => 1 | _ => 2
def e1f : ℕ → ℕ
  | 0 => 1 | 1 => 2 | 2 => 2 | 3 => 3 | _ => 3
/-- edge lengths (not all equal) -/
def lenf : ℕ → ℚ
  | 0 => 1 | 1 => 2 | 2 => 7/5 | 3 => 2 | _ => 1
/-- dual (Voronoi) edge lengths -/
def dualf : ℕ → ℚ
  | 0 => 1/2 | 1 => 1 | 2 => 3/10 | 3 => 1 | _ => 1/2
/-- cell areas -/
def areaf : ℕ → ℚ
  | 0 => 1/4 | 1 => 1/2 | 2 => 3/5 | _ => 1/3
/-- boundary edges, by edge index: all but the shared edge `2` -/
def bidxf : ℕ → ℕ
  | 0 => 0 | 1 => 1 | 2 => 3 | _ => 4

def mesh4 : FVMesh ℚ :=
  { n := 4, E := 5, e0 := e0f, e1 := e1f, len := lenf, dual := dualf, area := areaf,
    nb := 4, bidx := bidxf }

theorem mesh4_wf : mesh4.WF where
  lt := by show ∀ e, e < 5 → e0f e < e1f e; decide
  inRange := by show ∀ e, e < 5 → e1f e < 4; decide
  distinct := by
    have h : ∀ e, e < 5 → ∀ e', e' < 5 → e0f e = e0f e' → e1f e = e1f e' → e = e' := by decide
    exact fun e e' he he' => h e he e' he'
  bRange := by show ∀ b, b < 4 → bidxf b < 5; decide
  bDistinct := by
    have h : ∀ b, b < 4 → ∀ b', b' < 4 → bidxf b = bidxf b' → b = b' := by decide
    exact fun b b' hb hb' => h b hb b' hb'

theorem mesh4_area : ∀ r, r < mesh4.n → mesh4.area r ≠ 0 := by
  intro r hr
  change r < 4 at hr
  interval_cases r <;> norm_num [mesh4, areaf]

theorem mesh4_w_pos : ∀ e, e < mesh4.E → 0 < mesh4.w e := by
  intro e he
  change e < 5 at he
  interval_cases e <;> norm_num [mesh4, FVMesh.w, lenf, dualf]

theorem mesh4_adj_symm {i j : ℕ} : C03.Adj mesh4 i j → C03.Adj mesh4 j i := by
  rintro ⟨e, he, h⟩
  exact ⟨e, he, h.symm⟩

private theorem rtg_symm {i j : ℕ} (h : Relation.ReflTransGen (C03.Adj mesh4) i j) :
    Relation.ReflTransGen (C03.Adj mesh4) j i := by
  induction h with
  | refl => exact Relation.ReflTransGen.refl
  | tail _ hbc ih => exact ih.head (mesh4_adj_symm hbc)

private theorem adj01 : C03.Adj mesh4 0 1 := ⟨0, by decide, Or.inl ⟨rfl, rfl⟩⟩
private theorem adj02 : C03.Adj mesh4 0 2 := ⟨1, by decide, Or.inl ⟨rfl, rfl⟩⟩
private theorem adj13 : C03.Adj mesh4 1 3 := ⟨3, by decide, Or.inl ⟨rfl, rfl⟩⟩

private theorem reach0 : ∀ i, i < 4 → Relation.ReflTransGen (C03.Adj mesh4) 0 i := by
  intro i hi
  interval_cases i
  · exact Relation.ReflTransGen.refl
  · exact Relation.ReflTransGen.single adj01
  · exact Relation.ReflTransGen.single adj02
  · exact (Relation.ReflTransGen.single adj01).tail adj13

/-- the mesh is connected (hypothesis `hconn` of `C03_kernel`) -/
theorem mesh4_conn :
    ∀ i j, i < mesh4.n → j < mesh4.n → Relation.ReflTransGen (C03.Adj mesh4) i j := by
  intro i j hi hj
  exact (rtg_symm (reach0 i hi)).trans (reach0 j hj)

/-! ### the C03 theorems applied to `mesh4` -/

example (F : ℕ → ℚ) : sumTo (fun r => mesh4.area r * divRow mesh4 F r) mesh4.n = 0 :=
  C03.C03_div_sum_zero mesh4 mesh4_wf mesh4_area F

example (f g : ℕ → ℚ) :
    sumTo (fun r => mesh4.area r * f r * lapRow mesh4 g r) mesh4.n
      = - sumTo (fun e => mesh4.w e * (f (mesh4.e1 e) - f (mesh4.e0 e)) * (g (mesh4.e1 e) - g (mesh4.e0 e)))
          mesh4.E :=
  C03.C03_energy_identity mesh4 mesh4_wf mesh4_area f g

example (mb : ℕ → ℚ) :
    sumTo (fun r => mesh4.area r * neuRow mesh4 mb r) mesh4.n
      = sumTo (fun b => mesh4.len (mesh4.bidx b) * mb b) mesh4.nb :=
  C03.C03_boundary_flux mesh4 mesh4_wf mesh4_area (by norm_num) mb

example (g : ℕ → ℚ) : sumTo (fun r => mesh4.area r * g r * lapRow mesh4 g r) mesh4.n ≤ 0 :=
  C03.C03_neg_semidef mesh4 mesh4_wf mesh4_area (fun e he => (mesh4_w_pos e he).le) g

/-- the kernel characterisation, as an iff on the concrete mesh -/
example (g : ℕ → ℚ) :
    (∀ r, r < 4 → lapRow mesh4 g r = 0) ↔ (∀ i j, i < 4 → j < 4 → g i = g j) :=
  C03.C03_kernel mesh4 mesh4_wf mesh4_area mesh4_w_pos mesh4_conn g

/-- a concrete, non-constant site field; its Laplacian is not zero (so the iff above is not
    trivially true on both sides) -/
def mu4 : ℕ → ℚ
  | 0 => 1 | 3 => -1 | _ => 0

example : lapRow mesh4 mu4 0 = -4 := by
  norm_num [lapRow, sumTo, mesh4, FVMesh.w, e0f, e1f, lenf, dualf, areaf, mu4]

/-! ### C01: a non-trivial solution of the Poisson equation on `mesh4`

`μ = (1, 0, 0, −1)`, no supercurrent, static vector potential, and boundary current densities
`μ_b = (1, 1/2, −1/2, −1)` on the boundary edges `(0,1), (0,2), (1,3), (2,3)`: current enters around
site 0 and leaves around site 3. -/

def mb4 : ℕ → ℚ
  | 0 => 1 | 1 => 1/2 | 2 => -1/2 | _ => -1

theorem poisson4 : ∀ r, r < mesh4.n →
    lapRow mesh4 mu4 r = poissonRhs mesh4 (fun _ => 0) (fun _ => 0) mb4 r := by
  intro r hr
  change r < 4 at hr
  interval_cases r <;>
    norm_num [lapRow, poissonRhs, divRow, neuRow, sumTo, mesh4, FVMesh.w, e0f, e1f, lenf, dualf,
      areaf, bidxf, mu4, mb4]

example (r : ℕ) (hr : r < 4) :
    divRow mesh4 (fun e => (0 : ℚ) + normalEdge mesh4 mu4 (fun _ => 0) e) r = neuRow mesh4 mb4 r :=
  C01.C01_cell_continuity mesh4 (fun _ => 0) (fun _ => 0) mb4 mu4 poisson4 r hr

/-- and the injected flux is not zero: the conclusion is not `0 = 0` -/
example : neuRow mesh4 mb4 0 = 4 := by
  norm_num [neuRow, sumTo, mesh4, e0f, e1f, lenf, areaf, bidxf, mb4]

example (mb : ℕ → ℚ) (r : ℕ) (hr : r < 4) :
    mesh4.area r * neuRow mesh4 mb r
      = sumTo (fun b => (if mesh4.e0 (mesh4.bidx b) = r ∨ mesh4.e1 (mesh4.bidx b) = r
          then mesh4.len (mesh4.bidx b) / 2 * mb b else 0)) mesh4.nb :=
  C01.C01_cell_share mesh4 mesh4_wf mb r (mesh4_area r hr) (by norm_num)

/-- balanced terminal currents `(3, -3)` -/
example : terminalDensity 2 (fun t => if t = 0 then (3 : ℚ) else -3) (fun _ => 27/10) 0
    = 3 / (27/10) :=
  C01.C01_terminal_density_balanced 2 _ _ 0 (by norm_num) (by norm_num [sumTo])

/-! ### C10 with a non-empty pinned set (site 0 pinned) -/

def fixed4 : ℕ → Bool := fun r => r == 0

example : fixed4 0 = true ∧ fixed4 1 = false := ⟨rfl, rfl⟩

example (U₁ U₂ : ℕ → Cx ℚ) (i j : ℕ) :
    refreshLap mesh4 fixed4 (clapEntry mesh4 fixed4 U₁) U₂ i j = clapEntry mesh4 fixed4 U₂ i j :=
  C10.C10_refresh_lap_eq_build mesh4 mesh4_wf fixed4 U₁ U₂ i j

example (U₁ U₂ : ℕ → Cx ℚ) (e j : ℕ) (he : e < 5) :
    refreshGrad mesh4 (cgradEntry mesh4 U₁) U₂ e j = cgradEntry mesh4 U₂ e j :=
  C10.C10_refresh_grad_eq_build mesh4 mesh4_wf U₁ U₂ e j he

/-! ## 2. C12: sane adaptive options over `ℚ` -/

def optsQ : AdaptOpts ℚ :=
  { dtInit := 1/1000, dtMaxOpt := 1/10, adaptive := true, window := 2, mult := 1/4,
    maxRetries := 3, floor := 1/10^10, half := 1/2 }

theorem optsQ_sane : C12.Sane optsQ where
  init_pos := by norm_num [optsQ]
  init_le := by norm_num [optsQ]
  mult_pos := by norm_num [optsQ]
  mult_lt := by norm_num [optsQ]
  floor_pos := by norm_num [optsQ]
  half_eq := rfl

/-- an oracle refusing exactly the first two attempts `1/1000` and `1/4000` -/
def okQ : ℚ → Bool := fun dt => decide (dt < 1/10000)

theorem dtUsed_optsQ : dtUsed optsQ okQ (1/1000) = some (1/1000 * (1/4)^2) := by
  norm_num [dtUsed, eulerRetry, optsQ, okQ]

example : ∃ r, r ≤ optsQ.maxRetries + 1 ∧ (1/1000 * (1/4)^2 : ℚ) = 1/1000 * optsQ.mult ^ r ∧
    okQ (1/1000 * (1/4)^2) = true ∧ (∀ j, j < r → okQ (1/1000 * optsQ.mult ^ j) = false) ∧
    (0 < r → optsQ.adaptive = true) :=
  C12.C12_retry optsQ okQ _ _ dtUsed_optsQ

example (st : AdaptState ℚ) (step : ℕ) (dt d : ℚ) (hw : 2 < step) (hdt : 0 < dt) :
    (adaptAfter optsQ st step dt d).tentative
      = min (1 / 2 * (dt + optsQ.dtInit / max optsQ.floor (mean (lastN (st.hist ++ [d]) optsQ.window))))
          optsQ.dtMaxOpt :=
  C12.C12_rule optsQ optsQ_sane st step dt d rfl hw hdt

/-! ## 3. C05: the stopping hypothesis and the repaired loop on the witness that breaks the old one -/

def updN : ℕ → ℕ → ℕ → ℕ × ℕ × ℕ := fun s i _ => (1, s + 1, i)

theorem stopsAt7 : C05.StopsAt updN 0 7 7 := by
  constructor
  · decide
  · decide

example : ∃ e, runStage updN true 3 7 20 0 0 0 [] [] = some e ∧
    e.frames.map (·.step) = [0, 3, 6, 7] ∧
    e.frames.map (fun f => (f.step, f.snap)) = [(0, 0), (3, 3), (6, 6), (7, 7)] ∧
    (allRecs e.frames).length = 7 :=
  ⟨_, rfl, rfl, rfl, rfl⟩

example : ∃ e, runStage updN true 3 7 20 0 0 0 [] [] = some e :=
  C05.C05_stage_terminates updN 0 3 7 true 7 20 stopsAt7 (by decide)

/-! ## 4. C08: the same device in µm/mT/µA and in nm/µT/nA -/

def cQ : Consts ℚ := { pi := 22/7, mu0 := 1/800000, Phi0 := 1/(5*10^14) }
def uMicro : UnitSys ℚ := { lu := 1/10^6, fu := 1/10^3, cu := 1/10^6 }
def uNano : UnitSys ℚ := { lu := 1/10^9, fu := 1/10^6, cu := 1/10^9 }
/-- ξ = 0.5 µm, λ = 2 µm, d = 0.1 µm, B = 0.4 mT, I = 3 µA, L_t = 2.7 µm -/
def nMicro : Numbers ℚ := { xi := 1/2, lam := 2, d := 1/10, B := 2/5, I := 3, Lt := 27/10 }
def nNano : Numbers ℚ := { xi := 500, lam := 2000, d := 100, B := 400, I := 3000, Lt := 2700 }

theorem samePhysicsQ : C08.SamePhysics uMicro uNano nMicro nNano where
  xi := by norm_num [uMicro, uNano, nMicro, nNano]
  lam := by norm_num [uMicro, uNano, nMicro, nNano]
  d := by norm_num [uMicro, uNano, nMicro, nNano]
  B := by norm_num [uMicro, uNano, nMicro, nNano]
  I := by norm_num [uMicro, uNano, nMicro, nNano]
  Lt := by norm_num [uMicro, uNano, nMicro, nNano]

theorem nonDegMicro : C08.NonDeg cQ uMicro nMicro := by
  constructor <;> norm_num [cQ, uMicro, nMicro]

theorem nonDegNano : C08.NonDeg cQ uNano nNano := by
  constructor <;> norm_num [cQ, uNano, nNano]

example : terminalMb cQ uMicro nMicro = terminalMb cQ uNano nNano :=
  C08.C08_terminal_density_invariant cQ uMicro uNano nMicro nNano samePhysicsQ nonDegMicro nonDegNano

example : bc2 cQ uMicro nMicro = bc2 cQ uNano nNano ∧ a0 cQ uMicro nMicro = a0 cQ uNano nNano ∧
    k0 cQ uMicro nMicro = k0 cQ uNano nNano :=
  C08.C08_scales_invariant cQ uMicro uNano nMicro nNano samePhysicsQ

/-! ## 5. C15: a directory with an existing output, a serial and a stale `.tmp` -/

def fs0 : FS := fun n =>
  if n = (none, false) then some {}
  else if n = (some 1, false) then some {}
  else if n = (some 2, true) then some {}
  else none

/-- serial 2 is skipped because its `.tmp` companion exists -/
theorem create_fs0 : ∃ fs', createOutput 10 none fs0 = some (some 3, fs') := ⟨_, rfl⟩

example : (createOutput 10 none fs0).map (·.1) = some (some 3) := rfl

example : fs0 (some 3, false) = none ∧ fs0 (some 3, true) = none := by
  obtain ⟨fs', h⟩ := create_fs0
  exact C15.C15_fresh_name 10 none fs0 fs' (some 3) h

/-! ## 6. C16: a depth-3 time-dependent tree and a reachable object -/

/-- a time-dependent 2D leaf and a static 3D leaf -/
def PT : PExpr ℚ := .leaf ⟨0, false, true⟩
def P3 : PExpr ℚ := .leaf ⟨1, true, false⟩

/-- `((PT * 2) * 3) + P3` -/
def tree3 : PExpr ℚ := .comp (.comp (.comp PT .mul (.num 2)) .mul (.num 3)) .add P3

example : tree3.td = true := rfl
example : tree3.depth = 3 := by decide
example : tree3.leaves = [⟨0, false, true⟩, ⟨1, true, false⟩] := rfl

example : ∃ l ∈ tree3.leaves, l.td = true := (C16.C16_td_iff tree3).1 rfl

/-- the same tree as an object, built with the (repaired) public constructor, three levels deep -/
def objT : PObj ℚ := PObj.newLeaf ⟨0, false, true⟩
def obj1 : PObj ℚ := .comp objT .mul (.num 2) Attrs.all
def obj2 : PObj ℚ := .comp obj1 .mul (.num 3) Attrs.all
def obj3 : PObj ℚ := .comp obj2 .add (PObj.newLeaf ⟨1, true, false⟩) Attrs.all

theorem obj3_reachable : C16.Reachable obj3 := by
  have h1 : C16.Reachable obj1 :=
    C16.Reachable.construct objT (.num 2) .mul obj1 (C16.Reachable.leaf _) (C16.Reachable.num 2) rfl
  have h2 : C16.Reachable obj2 :=
    C16.Reachable.construct obj1 (.num 3) .mul obj2 h1 (C16.Reachable.num 3) rfl
  exact C16.Reachable.construct obj2 (PObj.newLeaf ⟨1, true, false⟩) .add obj3 h2
    (C16.Reachable.leaf _) rfl

example : obj3.erase = tree3 := rfl
example : obj3.WellFormed := C16.C16_reachable_wellformed obj3 obj3_reachable
example : obj3.clearCache = .ok () :=
  C16.C16_clear_total obj3 (C16.C16_reachable_wellformed obj3 obj3_reachable)
/-- unpickling keeps it reachable, hence well formed -/
example : (PObj.roundtrip Attrs.all obj3).WellFormed :=
  C16.C16_reachable_wellformed _ (C16.Reachable.unpickle obj3 obj3_reachable)

/-! ## 7. C19: an accepted and a rejected option set -/

def optsOK : Opts ℚ :=
  { dtInit := 1/1000, dtMax := 1/10, terminalPsiAbs := some 0, mult := 1/4, drag := 1/2,
    stepSize := 1, tol := 1/1000, gpu := false, solver := .superlu,
    haveCupy := false, haveUmfpack := false, havePardiso := false }

/-- the same with `screening_step_drag = 3/2` -/
def optsBadDrag : Opts ℚ := { optsOK with drag := 3/2 }

theorem optsOK_validates : optsOK.validate = none := by
  norm_num [Opts.validate, optsOK]
  rfl

theorem optsBadDrag_rejected : optsBadDrag.validate = some .drag := by
  norm_num [Opts.validate, optsBadDrag, optsOK]

/-- the right-hand side of `C19_validate_ok_iff` is satisfiable -/
example : optsOK.dtInit ≤ optsOK.dtMax ∧ (∀ a, optsOK.terminalPsiAbs = some a → 0 ≤ a ∧ a ≤ 1) ∧
    (0 < optsOK.mult ∧ optsOK.mult < 1) ∧ (0 < optsOK.drag ∧ optsOK.drag ≤ 1) ∧ 0 < optsOK.stepSize ∧
    0 < optsOK.tol ∧ (optsOK.gpu = true → optsOK.haveCupy = true) ∧ optsOK.solver ≠ .unknown ∧
    (optsOK.solver = .umfpack → optsOK.haveUmfpack = true) ∧
    (optsOK.solver = .pardiso → optsOK.havePardiso = true) ∧
    (optsOK.solver = .cupy → optsOK.gpu = true) :=
  (C19.C19_validate_ok_iff optsOK).1 optsOK_validates

example : optsBadDrag.validate ≠ none :=
  C19.C19_reject_any optsBadDrag (Or.inr (Or.inr (Or.inr (Or.inr (Or.inr (Or.inl
    (by norm_num [optsBadDrag, optsOK])))))))

/-- balanced / unbalanced terminal currents -/
example : currentsAccepted (1/10^9 : ℚ) [3, -1, -2] = true :=
  C19.C19_balanced_accepted _ (by norm_num) _ (by norm_num [listSum])

/-! ## 8. C13: a screening loop over `K = V = ℚ` that converges at the third iteration

`phys A = A`, `kern J = J/2 + 1` (fixed point `A = 2`), `errOf dA A = |dA|`, under-relaxation
`α = 4/5`, no drag memory (`β = 1`), tolerance `2/5`.  The errors of the three executed iterations are
`1, 3/5, 9/25`; the last is below the tolerance. -/

def physQ : ℚ → ℚ := fun A => A
def kernQ : ℚ → ℚ := fun J => J / 2 + 1
def errQ : ℚ → ℚ → ℚ := fun dA _ => |dA|

theorem screenQ :
    screenLoop (4/5 : ℚ) 1 (2/5) 10 physQ kernQ errQ 20 0 ⟨0, 0⟩ 0 none
      = .converged (196/125) (32/25) 3 (some (9/25)) := by
  norm_num [screenLoop, polyak, physQ, kernQ, errQ, abs_of_nonneg]

example : 0 < 3 ∧ ∃ e, some (9/25 : ℚ) = some e ∧ e < 2/5 :=
  C13.C13_exit (4/5 : ℚ) 1 (2/5) 10 physQ kernQ errQ 20 ⟨0, 0⟩ 0 _ _ 3 _ screenQ

example : ∃ sp : PolyakState ℚ, (32/25 : ℚ) = physQ sp.A ∧
    (196/125 : ℚ) = (polyak (4/5 : ℚ) 1 sp (kernQ (32/25))).A ∧
    some (9/25 : ℚ) = some (errQ (kernQ (32/25) - sp.A) (196/125)) :=
  C13.C13_exit_state (4/5 : ℚ) 1 (2/5) 10 physQ kernQ errQ 20 ⟨0, 0⟩ 0 _ _ 3 _ screenQ

/-! ## 9. C18: the pointwise kernel on predicates over `ℚ` satisfies the three laws -/

def predKernel : C18.Kernel (ℚ → Prop) ℚ where
  mem s p := s p
  union a b := fun p => a p ∨ b p
  inter a b := fun p => a p ∧ b p
  diff a b := fun p => a p ∧ ¬ b p
  mem_union _ _ _ := Iff.rfl
  mem_inter _ _ _ := Iff.rfl
  mem_diff _ _ _ := Iff.rfl

/-- three intervals -/
def Iv (a b : ℚ) : ℚ → Prop := fun p => a ≤ p ∧ p ≤ b

example (p : ℚ) :
    predKernel.mem (C18.unionAll predKernel (Iv 0 1) [Iv 2 3, Iv 5 8]) p
      ↔ predKernel.mem (Iv 0 1) p ∨ ∃ b ∈ [Iv 2 3, Iv 5 8], predKernel.mem b p :=
  C18.C18_union_chain predKernel (Iv 0 1) [Iv 2 3, Iv 5 8] p

/-- and the membership is what one expects on a point: `6 ∈ [0,1] ∪ [2,3] ∪ [5,8]` -/
example : predKernel.mem (C18.unionAll predKernel (Iv 0 1) [Iv 2 3, Iv 5 8]) 6 := by
  rw [C18.C18_union_chain]
  exact Or.inr ⟨Iv 5 8, by simp, by norm_num [predKernel, Iv]⟩

example (p : ℚ) :
    C18.deviceContains predKernel (Iv 0 10) [Iv 2 3, Iv 5 8] p
      ↔ predKernel.mem (Iv 0 10) p ∧ ∀ h ∈ [Iv 2 3, Iv 5 8], ¬ predKernel.mem h p :=
  C18.C18_device_contains predKernel (Iv 0 10) [Iv 2 3, Iv 5 8] p

/-! ## 10. C14: a device record with two terminals and a hole -/

open Tdgl.H5 in
def devS : DevRec String :=
  { name := "bridge", lengthUnits := "um",
    layer := ⟨"2.0", "0.5", "0.1", "5.79", "10.0", "0.0", none⟩,
    film := ⟨some "film", "mesh-bytes", "film-points"⟩,
    terminals := [("source", ⟨some "source", "m1", "p1"⟩), ("drain", ⟨some "drain", "m2", "p2"⟩)],
    holes := [("hole", ⟨none, "m3", "p3"⟩)],
    probePoints := some "probes" }

theorem devS_terminals_nodup : (devS.terminals.map (·.1)).Nodup := by decide
theorem devS_holes_nodup : (devS.holes.map (·.1)).Nodup := by decide

open Tdgl.H5 in
example : decodeDev (encodeDev (canonDev devS)) = some (canonDev devS) :=
  C14.C14_device_roundtrip_idempotent devS devS_terminals_nodup devS_holes_nodup

/-- the canonical form really reorders: "drain" comes before "source" -/
example : (H5.canonDev devS).terminals.map (·.1) = ["drain", "source"] := by decide

/-! ## 11. Further cheap witnesses (C07, C09, C17) -/

/-- a non-degenerate (scalene, counter-clockwise) triangle over `ℚ` -/
def triA : Pt ℚ := (0, 0)
def triB : Pt ℚ := (4, 0)
def triC : Pt ℚ := (1, 3)

theorem tri_nondeg : triArea2 triA triB triC ≠ 0 := by
  norm_num [triArea2, triA, triB, triC]

example : dist2 (circumcentre triA triB triC) triA = dist2 (circumcentre triA triB triC) triB ∧
    dist2 (circumcentre triA triB triC) triA = dist2 (circumcentre triA triB triC) triC :=
  C07.C07_circumcentre_equidistant triA triB triC tri_nondeg (by norm_num)

/-- the circumcentre is the expected point `(2, 1)` -/
example : circumcentre triA triB triC = (2, 1) := by
  norm_num [circumcentre, triA, triB, triC]

/-- a schedule with a repetition, out of order, that covers `0, 1, 2` (hypothesis `hcover` of C09) -/
theorem sched_covers : ∀ i, i < 3 → i ∈ [2, 0, 1, 0] := by decide

example (f buf : ℕ → ℚ) (i : ℕ) (hi : i < 3) :
    runSchedule f [2, 0, 1, 0] buf i = runSchedule f (List.range 3) buf i :=
  C09.C09_equals_sequential f [2, 0, 1, 0] 3 sched_covers buf i hi

/-- a linear "solver" maps the zero right-hand side to zero (hypothesis `hsolve` of C17) -/
example (m : FVMesh ℝ) (gamma u dt : ℝ) (k : ℕ) :
    runSteps m (fun _ => false) (linkOf C17.theta0) (fun rhs r => 3 * rhs r) (fun _ => 1) gamma u dt
      (fun _ => 0) k C17.uniform = some C17.uniform :=
  C17.C17_forever m (fun rhs r => 3 * rhs r) (by funext r; simp) gamma u dt k

end Tdgl.NonVacuity
