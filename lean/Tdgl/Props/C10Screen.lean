/-
  C10 (inside a screened run) — with screening on, `update` rebuilds the link variables from
  `A_applied + A_induced` at the TOP of every screening iteration, before the ψ step of that iteration.  Therefore the
  operators a ψ step runs with never depend on what the operators held before the update: a run continued from a seed
  (non-zero induced potential handed in) and the second `solve()` of one solver start with fresh operators too.
-/
import Mathlib.Data.List.Basic
import Mathlib.Tactic.Common

namespace Tdgl.C10

variable {A : Type}

/-- the link variables used by the ψ steps of one screened update, in the order of the code: `inds` are the induced
    potentials of the successive iterations (the first one is the potential handed to `update`), `link0` is whatever
    the operators held before -/
def linksUsed (add : A → A → A) (applied : A) : A → List A → List A
  | _, [] => []
  | _, ind :: inds => add applied ind :: linksUsed add applied (add applied ind) inds

/-- the other order (rebuild AFTER the induced potential has been updated, i.e. at the end of an iteration) -/
def linksUsedRefreshAfter (add : A → A → A) (applied : A) : A → List A → List A
  | _, [] => []
  | link, [_] => [link]
  | link, _ :: ind' :: inds => link :: linksUsedRefreshAfter add applied (add applied ind') (ind' :: inds)

/-- every ψ step of a screened update runs with the link variables of the applied potential plus the induced
    potential of its own iteration, whatever the operators held before -/
theorem C10_screened_links_fresh (add : A → A → A) (applied link0 : A) (inds : List A) :
    linksUsed add applied link0 inds = inds.map (add applied) := by
  induction inds generalizing link0 with
  | nil => rfl
  | cons ind inds ih => simp [linksUsed, ih]

/-- in particular they do not depend on the previous content of the operators -/
theorem C10_screened_links_independent_of_history (add : A → A → A) (applied l l' : A) (inds : List A) :
    linksUsed add applied l inds = linksUsed add applied l' inds := by
  rw [C10_screened_links_fresh, C10_screened_links_fresh]

/-- the other order is not fresh: the first ψ step runs with whatever the operators held (applied only, after
    `__init__`), although a non-zero induced potential was handed in (seeded run): 10 + 0 instead of 10 + 3 -/
theorem C10_refresh_after_is_stale :
    (linksUsedRefreshAfter (· + ·) (10 : ℕ) 10 [3, 4]).head? = some 10 ∧ (linksUsed (· + ·) (10 : ℕ) 10 [3, 4]).head? = some 13 := by
  decide

end Tdgl.C10
