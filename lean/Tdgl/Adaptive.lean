/-
  Model of the time-step logic of tdgl/solver/solver.py:
    * `adaptive_euler_step` (441-487): the retry loop, with "did the solve succeed at this dt" an
      arbitrary oracle `ok : K → Bool`;
    * the windowed rule at the end of `update` (698-707);
    * `dt_max := dt_init` when not adaptive (320), `tentative_dt` initialised to `dt_init` (319).
-/
import Tdgl.Scalar

namespace Tdgl
variable {K : Type} [Add K] [Mul K] [Div K] [OfNat K 0] [LT K] [DecidableLT K]

structure AdaptOpts (K : Type) where
  dtInit : K
  dtMaxOpt : K            -- `options.dt_max`
  adaptive : Bool
  window : Nat
  mult : K                -- adaptive_time_step_multiplier
  maxRetries : Nat
  floor : K               -- the constant 1e-10
  half : K                -- the constant 0.5

/-- `self.dt_max = options.dt_max if options.adaptive else options.dt_init` -/
def AdaptOpts.dtMax (o : AdaptOpts K) : K := if o.adaptive then o.dtMaxOpt else o.dtInit

/-- The retry loop. `retries` counts completed retries; `budget = maxRetries + 1 - retries` is the
    structural fuel (the code raises when `retries > max_solve_retries`).
    `none` = `RuntimeError("Solver failed to converge ...")`. -/
def eulerRetry (ok : K → Bool) (adaptive : Bool) (mult : K) : Nat → K → Option K
  | budget, dt =>
    if ok dt then some dt
    else if adaptive = false then none
    else match budget with
      | 0 => none
      | b+1 => eulerRetry ok adaptive mult b (dt * mult)

/-- the time step used by a step that starts from `tentative`: up to `maxRetries + 1` retries -/
def dtUsed (o : AdaptOpts K) (ok : K → Bool) (tentative : K) : Option K :=
  eulerRetry ok o.adaptive o.mult (o.maxRetries + 1) tentative

/-- Python `max(a, b)` : returns `a` unless `b > a` -/
def pyMax (a b : K) : K := if a < b then b else a
/-- `np.clip(x, lo, hi)` = `minimum(maximum(x, lo), hi)` -/
def clip (x lo hi : K) : K :=
  let y := if x < lo then lo else x
  if hi < y then hi else y

def listSum (l : List K) : K := l.foldl (· + ·) 0

/-- Python slice `l[-w:]` (for `w = 0` this is the whole list) -/
def lastN (l : List K) (w : Nat) : List K := if w = 0 then l else l.drop (l.length - w)

/-- `np.mean` of a non-empty list -/
def mean [NatCast K] (l : List K) : K := listSum l / (l.length : K)

structure AdaptState (K : Type) where
  tentative : K
  hist : List K           -- d_psi_sq_vals

def AdaptState.init (o : AdaptOpts K) : AdaptState K := ⟨o.dtInit, []⟩

/-- end of `update`: record `d = max |Δ|ψ|²|`, and if `step > window` propose the next step -/
def adaptAfter [NatCast K] (o : AdaptOpts K) (st : AdaptState K) (step : Nat) (dt d : K) : AdaptState K :=
  if o.adaptive then
    let hist := st.hist ++ [d]
    if o.window < step then
      let newDt := o.dtInit / pyMax o.floor (mean (lastN hist o.window))
      ⟨clip (o.half * (newDt + dt)) 0 o.dtMax, hist⟩
    else ⟨st.tentative, hist⟩
  else st

/-- a run of the dt controller: per step the oracle `ok i` (may depend on the step) and the observed
    change `d i`; returns the list of time steps used, or `none` if a step raised -/
def adaptRun [NatCast K] (o : AdaptOpts K) (ok : Nat → K → Bool) (d : Nat → K) :
    Nat → Nat → AdaptState K → Option (List K × AdaptState K)
  | 0, _, st => some ([], st)
  | n+1, i, st =>
    match dtUsed o (ok i) st.tentative with
    | none => none
    | some dt =>
      match adaptRun o ok d n (i+1) (adaptAfter o st i dt (d i)) with
      | none => none
      | some (dts, st') => some (dt :: dts, st')

end Tdgl
