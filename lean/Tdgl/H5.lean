/-
  Model of the HDF5 (de)serialisation of tdgl: `Layer`, `Polygon`, `Device`, `Mesh`/`EdgeMesh` and the
  solver options stored with a `Solution` (tdgl/device/layer.py:59-98, polygon.py:581-598,
  device.py:772-865, finite_volume/mesh.py:345-423, solution/solution.py:905-911,976-985).

  An HDF5 group is a finite map from keys to payloads (`Store V`); payloads `V` (numbers, strings, arrays)
  are opaque.  Optional values are saved by *omitting* the key (HDF5 cannot store `None`) and loaded
  with "missing ⇒ None / default" — exactly where round trips can go wrong.
-/
import Tdgl.Scalar

namespace Tdgl.H5

/-- association list; `put` appends (keys of one record are distinct by construction) -/
abbrev Store (V : Type) := List (String × V)

def Store.get {V : Type} (s : Store V) (k : String) : Option V := (s.find? (fun e => e.1 == k)).map (·.2)
def Store.has {V : Type} (s : Store V) (k : String) : Bool := (s.get k).isSome
def putOpt {V : Type} (k : String) (v : Option V) : Store V :=
  match v with
  | none => []
  | some x => [(k, x)]

/-! ### Layer -/
structure LayerRec (V : Type) where
  londonLambda : V
  coherenceLength : V
  thickness : V
  u : V
  gamma : V
  z0 : V
  conductivity : Option V
  deriving DecidableEq

def encodeLayer {V : Type} (l : LayerRec V) : Store V :=
  [("london_lambda", l.londonLambda), ("coherence_length", l.coherenceLength), ("thickness", l.thickness),
   ("u", l.u), ("gamma", l.gamma), ("z0", l.z0)] ++ putOpt "conductivity" l.conductivity

/-- `Layer.from_hdf5`: every field through `get(key, default=None)`; a missing required field loads as
    `None`, which the record cannot hold: `none` result -/
def decodeLayer {V : Type} (s : Store V) : Option (LayerRec V) :=
  match s.get "london_lambda", s.get "coherence_length", s.get "thickness", s.get "u", s.get "gamma", s.get "z0" with
  | some a, some b, some c, some d, some e, some f => some ⟨a, b, c, d, e, f, s.get "conductivity"⟩
  | _, _, _, _, _, _ => none

/-! ### Polygon -/
structure PolyRec (V : Type) where
  name : Option V
  mesh : V
  points : V
  deriving DecidableEq

def encodePoly {V : Type} (p : PolyRec V) : Store V :=
  putOpt "name" p.name ++ [("mesh", p.mesh), ("points", p.points)]

def decodePoly {V : Type} (s : Store V) : Option (PolyRec V) :=
  match s.get "mesh", s.get "points" with
  | some m, some p => some ⟨s.get "name", m, p⟩
  | _, _ => none

/-! ### Solver options: fields that may be `None` -/
/-- the option fields relevant to round-tripping: `terminalPsi` and `outputFile` may be `None`
    (`terminal_psi` has the non-`None` default `0.0`), the rest are always present -/
structure OptsRec (V : Type) where
  terminalPsi : Option V
  outputFile : Option V
  others : List (String × V)      -- all remaining fields, never `None`

def encodeOpts {V : Type} (o : OptsRec V) : Store V :=
  putOpt "terminal_psi" o.terminalPsi ++ putOpt "output_file" o.outputFile ++ o.others

/-- the repaired loader: a missing key of an Optional-typed field is `None` -/
def decodeOpts {V : Type} (otherKeys : List String) (s : Store V) : OptsRec V :=
  ⟨s.get "terminal_psi", s.get "output_file", otherKeys.filterMap (fun k => (s.get k).map (fun v => (k, v)))⟩

/-- the loader of the pinned tree: a missing key falls back to the dataclass default -/
def decodeOptsOld {V : Type} (defaultTerminalPsi : V) (otherKeys : List String) (s : Store V) : OptsRec V :=
  ⟨some ((s.get "terminal_psi").getD defaultTerminalPsi), s.get "output_file",
    otherKeys.filterMap (fun k => (s.get k).map (fun v => (k, v)))⟩

/-! ### Mesh: full or compressed storage -/
structure MeshRec (V : Type) where
  sites : V
  elements : V
  boundaryIndices : V
  areas : V
  dualSites : V
  edgeMesh : V
  voronoiFlat : V
  voronoiSplit : V

def encodeMesh {V : Type} (compress : Bool) (m : MeshRec V) : Store V :=
  [("sites", m.sites), ("elements", m.elements)] ++
  (if compress then [] else
    [("boundary_indices", m.boundaryIndices), ("areas", m.areas), ("edge_mesh", m.edgeMesh),
     ("dual_sites", m.dualSites), ("voronoi_polygons_flat", m.voronoiFlat), ("voronoi_split_indices", m.voronoiSplit)])

/-- `Mesh.is_restorable` -/
def isRestorable {V : Type} (s : Store V) : Bool :=
  s.has "sites" && s.has "elements" && s.has "boundary_indices" && s.has "areas" && s.has "edge_mesh" &&
  s.has "dual_sites" && s.has "voronoi_polygons_flat" && s.has "voronoi_split_indices"

/-- `Mesh.from_hdf5`; `recompute sites elements` is `Mesh.from_triangulation` -/
def decodeMesh {V : Type} (recompute : V → V → MeshRec V) (s : Store V) : Option (MeshRec V) :=
  match s.get "sites", s.get "elements" with
  | some si, some el =>
    if isRestorable s then
      match s.get "boundary_indices", s.get "areas", s.get "dual_sites", s.get "edge_mesh",
            s.get "voronoi_polygons_flat", s.get "voronoi_split_indices" with
      | some b, some a, some d, some e, some vf, some vs => some ⟨si, el, b, a, d, e, vf, vs⟩
      | _, _, _, _, _, _ => none
    else some (recompute si el)
  | _, _ => none

/-! ### Device: named sub-groups -/
structure DevRec (V : Type) where
  name : V
  lengthUnits : V
  layer : LayerRec V
  film : PolyRec V
  terminals : List (String × PolyRec V)    -- keyed by terminal name
  holes : List (String × PolyRec V)
  probePoints : Option V

/-- a stored device: attrs + sub-groups; HDF5 iterates sub-groups in alphabetical key order -/
structure DevStore (V : Type) where
  attrs : Store V
  layer : Store V
  film : Store V
  terminals : List (String × Store V)
  holes : List (String × Store V)
  probe : Option V

/-- insertion into a key-sorted list (what creating a group in an HDF5 group amounts to for iteration) -/
def insertSorted {A : Type} (k : String) (a : A) : List (String × A) → List (String × A)
  | [] => [(k, a)]
  | (k', a') :: rest => if k < k' then (k, a) :: (k', a') :: rest else (k', a') :: insertSorted k a rest

def sortByKey {A : Type} (l : List (String × A)) : List (String × A) :=
  l.foldr (fun e acc => insertSorted e.1 e.2 acc) []

def encodeDev {V : Type} (d : DevRec V) : DevStore V :=
  ⟨[("name", d.name), ("length_units", d.lengthUnits)], encodeLayer d.layer, encodePoly d.film,
    sortByKey (d.terminals.map (fun t => (t.1, encodePoly t.2))),
    sortByKey (d.holes.map (fun h => (h.1, encodePoly h.2))), d.probePoints⟩

def decodeList {V : Type} : List (String × Store V) → Option (List (String × PolyRec V))
  | [] => some []
  | (k, s) :: rest =>
    match decodePoly s, decodeList rest with
    | some p, some r => some ((k, p) :: r)
    | _, _ => none

def decodeDev {V : Type} (s : DevStore V) : Option (DevRec V) :=
  match s.attrs.get "name", s.attrs.get "length_units", decodeLayer s.layer, decodePoly s.film,
        decodeList s.terminals, decodeList s.holes with
  | some n, some lu, some l, some f, some ts, some hs => some ⟨n, lu, l, f, ts, hs, s.probe⟩
  | _, _, _, _, _, _ => none

/-- the canonical form the library's `==` compares: terminals and holes sorted by name -/
def canonDev {V : Type} (d : DevRec V) : DevRec V :=
  { d with terminals := sortByKey d.terminals, holes := sortByKey d.holes }

end Tdgl.H5
