/-
  Model of one solver update on the whole mesh (tdgl/solver/solver.py):
    * `solve_for_observables` (489-520): supercurrent, Poisson right-hand side, normal current;
      the sparse LU solve is an external call: the model takes `solve` as a parameter.
    * the Euler step over all sites (`solve_for_psi_squared` with `lap = (psi_laplacian @ psi)`).
    * `update_mu_boundary` (325-345): terminal current densities on boundary edges.
-/
import Tdgl.Scalar
import Tdgl.Step
import Tdgl.Operators

namespace Tdgl
variable {K : Type} [Add K] [Sub K] [Mul K] [Div K] [Neg K]
  [OfNat K 0] [OfNat K 1] [OfNat K 2] [OfNat K 4] [LT K] [DecidableLT K] [HasSqrt K] [HasTrig K]

/-- Poisson right-hand side `D (Js − dA/dt) − B μ_b` -/
def poissonRhs (m : FVMesh K) (js dAdt : Nat → K) (mb : Nat → K) (r : Nat) : K :=
  divRow m (fun e => js e - dAdt e) r - neuRow m mb r

/-- normal current `Jn = −G μ − dA/dt` -/
def normalEdge (m : FVMesh K) (mu : Nat → K) (dAdt : Nat → K) (e : Nat) : K :=
  -(gradEdge m mu e) - dAdt e

/-- result of `solve_for_observables`: `(μ, Js, Jn)` with `μ = solve rhs` -/
def observables (m : FVMesh K) (solve : (Nat → K) → (Nat → K)) (U : Nat → Cx K) (psi : Nat → Cx K)
    (dAdt mb : Nat → K) : (Nat → K) × (Nat → K) × (Nat → K) :=
  let js := superEdge m U psi
  let mu := solve (poissonRhs m js dAdt mb)
  (mu, js, normalEdge m mu dAdt)

/-- per-site Euler update with the covariant Laplacian action taken from the operators;
    `a r` is the `abs_sq_psi` the caller passes (normally `|ψ_r|²`) -/
def eulerSite (m : FVMesh K) (fixed : Nat → Bool) (U : Nat → Cx K) (psi : Nat → Cx K) (a mu eps : Nat → K)
    (gamma u dt : K) (r : Nat) : Option (Cx K × K) :=
  stepSite (psi r) (a r) (mu r) (eps r) gamma u dt (clapRow m fixed U psi r)

/-- the whole Euler step: refused iff some site is refused -/
def eulerAll (m : FVMesh K) (fixed : Nat → Bool) (U : Nat → Cx K) (psi : Nat → Cx K) (a mu eps : Nat → K)
    (gamma u dt : K) : Option (List (Cx K × K)) :=
  if (List.range m.n).all (fun r => (eulerSite m fixed U psi a mu eps gamma u dt r).isSome) then
    some ((List.range m.n).filterMap (fun r => eulerSite m fixed U psi a mu eps gamma u dt r))
  else none

/-- `update_mu_boundary`: terminal `t` gets current density `−(1/L_t) Σ_{t' ≠ t} I_{t'}`;
    `cur t'` are the (already `J_scale`-scaled) terminal currents, `T` terminals, `tlen t` lengths. -/
def terminalDensity (T : Nat) (cur : Nat → K) (tlen : Nat → K) (t : Nat) : K :=
  (-(1 : K) / tlen t) * sumTo (fun t' => if t' = t then 0 else cur t') T


/-- the Euler step as a function on sites: `none` iff some site is refused -/
def eulerFn (m : FVMesh K) (fixed : Nat → Bool) (U : Nat → Cx K) (psi : Nat → Cx K) (a mu eps : Nat → K)
    (gamma u dt : K) : Option (Nat → Cx K) :=
  if (List.range m.n).all (fun r => (eulerSite m fixed U psi a mu eps gamma u dt r).isSome) then
    some (fun r => ((eulerSite m fixed U psi a mu eps gamma u dt r).getD (psi r, a r)).1)
  else none

/-- `psi[terminal sites] = terminal_psi; abs_sq_psi[terminal sites] = abs(terminal_psi)**2` — the
    re-imposition of the Dirichlet value after the Euler step (solver.py `update`); `tp = none`
    models `terminal_psi = None` (nothing is pinned). -/
def pinSite (fixed : Nat → Bool) (tp : Option (Cx K)) (r : Nat) (px : Cx K × K) : Cx K × K :=
  match tp with
  | none => px
  | some v => if fixed r then (v, absSq v) else px

/-- the Euler step followed by the re-imposition of the terminal value -/
def eulerPinnedFn (m : FVMesh K) (fixed : Nat → Bool) (tp : Option (Cx K)) (U : Nat → Cx K)
    (psi : Nat → Cx K) (a mu eps : Nat → K) (gamma u dt : K) : Option (Nat → Cx K × K) :=
  if (List.range m.n).all (fun r => (eulerSite m fixed U psi a mu eps gamma u dt r).isSome) then
    some (fun r => pinSite fixed tp r ((eulerSite m fixed U psi a mu eps gamma u dt r).getD (psi r, a r)))
  else none

/-- solver state between steps (static applied field, no screening) -/
structure MState (K : Type) where
  psi : Nat → Cx K
  mu : Nat → K
  js : Nat → K
  jn : Nat → K

/-- one un-screened update with a static vector potential at fixed `dt`:
    Euler step with `abs_sq_psi = |ψ|²`, then `solve_for_observables`. -/
def fullStep (m : FVMesh K) (fixed : Nat → Bool) (U : Nat → Cx K) (solve : (Nat → K) → (Nat → K))
    (eps : Nat → K) (gamma u dt : K) (mb : Nat → K) (s : MState K) : Option (MState K) :=
  match eulerFn m fixed U s.psi (fun r => absSq (s.psi r)) s.mu eps gamma u dt with
  | none => none
  | some psi' =>
    let o := observables m solve U psi' (fun _ => 0) mb
    some ⟨psi', o.1, o.2.1, o.2.2⟩

/-- `k` updates; `none` as soon as one is refused -/
def runSteps (m : FVMesh K) (fixed : Nat → Bool) (U : Nat → Cx K) (solve : (Nat → K) → (Nat → K))
    (eps : Nat → K) (gamma u dt : K) (mb : Nat → K) : Nat → MState K → Option (MState K)
  | 0, s => some s
  | k+1, s =>
    match fullStep m fixed U solve eps gamma u dt mb s with
    | none => none
    | some s' => runSteps m fixed U solve eps gamma u dt mb k s'

/-- one un-screened update as the repaired `update` runs it: Euler step, re-imposition of the terminal value
    on pinned sites (`tp = none`: nothing pinned), then `solve_for_observables` -/
def fullStepP (m : FVMesh K) (fixed : Nat → Bool) (tp : Option (Cx K)) (U : Nat → Cx K)
    (solve : (Nat → K) → (Nat → K)) (eps : Nat → K) (gamma u dt : K) (mb : Nat → K) (s : MState K) :
    Option (MState K) :=
  match eulerPinnedFn m fixed tp U s.psi (fun r => absSq (s.psi r)) s.mu eps gamma u dt with
  | none => none
  | some out =>
    let psi' := fun r => (out r).1
    let o := observables m solve U psi' (fun _ => 0) mb
    some ⟨psi', o.1, o.2.1, o.2.2⟩

/-- `k` pinned updates; `none` as soon as one is refused -/
def runStepsP (m : FVMesh K) (fixed : Nat → Bool) (tp : Option (Cx K)) (U : Nat → Cx K)
    (solve : (Nat → K) → (Nat → K)) (eps : Nat → K) (gamma u dt : K) (mb : Nat → K) :
    Nat → MState K → Option (MState K)
  | 0, s => some s
  | k+1, s =>
    match fullStepP m fixed tp U solve eps gamma u dt mb s with
    | none => none
    | some s' => runStepsP m fixed tp U solve eps gamma u dt mb k s'

end Tdgl
