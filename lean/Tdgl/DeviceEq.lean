/-
  Model of `Device.__eq__` (tdgl/device/device.py:885-915) and of the seed-solution guard of
  `TDGLSolver.solve` (tdgl/solver/solver.py: `seed_solution.device != device` → ValueError):
  name, layer, film, probe points and length units are compared directly, holes and terminals after sorting
  both lists by name.  Records are those of Tdgl/H5.lean (a polygon is its name, vertex data and mesh flag).
-/
import Tdgl.H5

namespace Tdgl.H5

variable {V : Type} [DecidableEq V]

/-- `compare(seq1, seq2)`: both lists sorted by name, then compared element by element -/
def namedEq (l1 l2 : List (String × PolyRec V)) : Bool := decide (sortByKey l1 = sortByKey l2)

/-- `Device.__eq__` -/
def devEq (a b : DevRec V) : Bool :=
  decide (a.name = b.name) && decide (a.layer = b.layer) && decide (a.film = b.film) && namedEq a.holes b.holes
    && namedEq a.terminals b.terminals && decide (a.probePoints = b.probePoints) && decide (a.lengthUnits = b.lengthUnits)

/-- the guard at the start of a seeded solve: `none` = proceed, `some msg` = ValueError before anything is written -/
def seedGuard (seedDevice device : DevRec V) : Option String :=
  if devEq seedDevice device then none else some "seed_solution.device must be equal to device"

end Tdgl.H5
