/-
  Model of the screening calculation (tdgl/solver/screening.py:12-42, tdgl/solver/solver.py:522-578 and
  the loop 650-688).

  * `kernelA` — the numba kernel `A[i,k] = Σ_j J[j,k] · area[j] / |c_i − r_j|` (outer loop over edges `i` is
    a `prange`; the inner sum over sites is sequential).
  * `polyak` — one heavy-ball update: `dA = new − A_prev`, `v = (1−β) v_prev + α dA`, `A = A_prev + v`,
    `err = max_i ‖dA_i‖ / max(‖A_i‖, 1e-20)` (the *new* iterate in the denominator).
  * `screenLoop` — `for it in count(): if err < tol: break; if it > max_it: raise; … (A, err) = polyak(…)`;
    the physics of one iteration (Euler step + Poisson solve for the given induced potential) is the
    abstract `phys : Vec → Vec` returning the site currents.
  A whole vector field is an element of an abstract type `V` with `+`, `−` and scalar multiplication
  (a `K`-module in the theorems; a strict value in the driver); `errOf` is an abstract error functional.
-/
import Tdgl.Scalar

namespace Tdgl
variable {K : Type}

section kernel
variable [Add K] [Sub K] [Mul K] [Div K] [OfNat K 0] [HasSqrt K]

/-- `A_induced[i, k]` for edge centre `(cx i, cy i)`: sequential sum over the `n` sites -/
def kernelA (n : Nat) (J : Nat → K) (area sx sy : Nat → K) (cx cy : K) : K :=
  sumTo (fun j =>
    let dx := cx - sx j
    let dy := cy - sy j
    J j * area j / HasSqrt.sqrt (dx * dx + dy * dy)) n

end kernel

section polyak
variable {V : Type} [Add V] [Sub V] [HSMul K V V] [Sub K] [OfNat K 1]

/-- state of the heavy-ball iteration; `V` is the type of a whole vector field on the edges
    (`Nat → K` in the theorems about components, a strict array in the driver) -/
structure PolyakState (V : Type) where
  A : V
  v : V

/-- one heavy-ball update given the freshly evaluated kernel `new` -/
def polyak (alpha beta : K) (s : PolyakState V) (new : V) : PolyakState V :=
  let dA := new - s.A
  let v := (1 - beta) • s.v + alpha • dA
  ⟨s.A + v, v⟩

end polyak

section loop
variable {V : Type} [Add V] [Sub V] [HSMul K V V] [Sub K] [OfNat K 1] [LT K] [DecidableLT K]

/-- result of the screening loop of one solve step -/
inductive ScreenResult (K V : Type) where
  | converged (A : V) (J : V) (iterations : Nat) (lastErr : Option K)
  | failed (iterations : Nat)            -- RuntimeError: failed to converge
  | outOfFuel

/-- the loop of `update` with screening on.  `err` is the error of the previous iteration (`none` = `inf`
    before the first).  `phys A` = currents computed with induced potential `A`; `kern J` = kernel of those
    currents; `errOf dA A` = the relative error functional. -/
def screenLoop (alpha beta tol : K) (maxIt : Nat) (phys : V → V) (kern : V → V) (errOf : V → V → K) :
    Nat → Nat → PolyakState V → V → Option K → ScreenResult K V
  | 0, _, _, _, _ => .outOfFuel
  | fuel+1, it, s, J, err =>
    if (match err with | none => false | some e => decide (e < tol)) then .converged s.A J it err
    else if maxIt < it then .failed it
    else
      let J' := phys s.A
      let new := kern J'
      let s' := polyak alpha beta s new
      let e := errOf (new - s.A) s'.A
      screenLoop alpha beta tol maxIt phys kern errOf fuel (it+1) s' J' (some e)

end loop

/-- `TDGLSolver.solve`: the induced vector potential a run STARTS from.  A fresh run starts from zero; a run continued from
    a seed solution starts from the seed's induced potential when screening is on and from zero when it is off
    (`/repo` afab2ac; `initialInducedOld` is what the code did before: the seed's potential whatever the option). -/
def initialInduced [OfNat K 0] (screening : Bool) (seed : Option (Nat → K)) : Nat → K :=
  match seed with
  | none => fun _ => 0
  | some a => if screening then a else fun _ => 0

def initialInducedOld [OfNat K 0] (seed : Option (Nat → K)) : Nat → K :=
  match seed with
  | none => fun _ => 0
  | some a => a

/-- without screening the loop body runs once and the induced potential is returned untouched -/
def noScreenStep {S : Type} (phys : S → (Nat → K) → S) (s : S) (A : Nat → K) : S × (Nat → K) := (phys s A, A)

end Tdgl

/-! ### The loop as it really runs: the physics is stateful

In `TDGLSolver.update` every Polyak iteration re-applies the Euler step to the *already updated* ψ (with the
`abs_sq_psi` of the start of the step) and re-solves for μ, so the currents are a function of the induced
potential **and** of the state left by the previous iteration. `P` is that state (`ψ, μ, dt`). -/
namespace Tdgl
variable {K : Type}

section loopS
variable {V P : Type} [Add V] [Sub V] [HSMul K V V] [Sub K] [OfNat K 1] [LT K] [DecidableLT K]

inductive ScreenResultS (K V P : Type) where
  | converged (p : P) (A : V) (J : V) (iterations : Nat) (lastErr : Option K)
  | failed (iterations : Nat)
  | outOfFuel

/-- `phys p A = (p', J)`: one Euler step + Poisson solve with link variables from `A_applied + A`,
    starting from physics state `p`; returns the new state and the total current. -/
def screenLoopS (alpha beta tol : K) (maxIt : Nat) (phys : P → V → P × V) (kern : V → V) (errOf : V → V → K) :
    Nat → Nat → P → PolyakState V → V → Option K → ScreenResultS K V P
  | 0, _, _, _, _, _ => .outOfFuel
  | fuel+1, it, p, s, J, err =>
    if (match err with | none => false | some e => decide (e < tol)) then .converged p s.A J it err
    else if maxIt < it then .failed it
    else
      let r := phys p s.A
      let new := kern r.2
      let s' := polyak alpha beta s new
      let e := errOf (new - s.A) s'.A
      screenLoopS alpha beta tol maxIt phys kern errOf fuel (it+1) r.1 s' r.2 (some e)

end loopS
end Tdgl
