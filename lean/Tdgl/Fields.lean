/-
  Model of the post-processing kernels (tdgl/em.py:153-249, tdgl/solution/solution.py:669-872,
  tdgl/distance.py): Biot–Savart sums for a sheet current, the Coulomb-kernel vector potential, field-unit
  conversion.  The geometric weight of source cell `k` for an evaluation point is an arbitrary function
  (`pref k = (μ0/4π) a_k r^{-3}` in the code): every statement holds for any weights.
-/
import Tdgl.Scalar

namespace Tdgl
variable {K : Type} [Add K] [Sub K] [Mul K] [Neg K] [OfNat K 0]

/-- `_biot_savart_2d_z`: `Bz = Σ_k pref_k Jx_k dy_k − Σ_k pref_k Jy_k dx_k` (two accumulators, subtracted at the end) -/
def bsZ (n : Nat) (pref dx dy : Nat → K) (Jx Jy : Nat → K) : K :=
  sumTo (fun k => pref k * Jx k * dy k) n - sumTo (fun k => pref k * Jy k * dx k) n

/-- `_biot_savart_2d_vector`: `(Σ pref Jy dz, −Σ pref Jx dz, Σ pref Jx dy − Σ pref Jy dx)` -/
def bsVec (n : Nat) (pref dx dy dz : Nat → K) (Jx Jy : Nat → K) : K × K × K :=
  (sumTo (fun k => pref k * Jy k * dz k) n,
   -(sumTo (fun k => pref k * Jx k * dz k) n),
   sumTo (fun k => pref k * Jx k * dy k) n - sumTo (fun k => pref k * Jy k * dx k) n)

/-- the Coulomb-kernel potential of one component: `c · Σ_k (J_k / ρ_k) a_k` (einsum over sites) -/
def vecPot [Div K] (n : Nat) (c : K) (area rho : Nat → K) (J : Nat → K) : K :=
  c * sumTo (fun k => J k / rho k * area k) n

/-- `convert_field` between `H` and `B = μ0 H` -/
def hToB (mu0 x : K) : K := x * mu0
def bToH [Div K] (mu0 x : K) : K := x / mu0

/-- pairwise distance kernels of tdgl/distance.py (2-D) -/
def sqeuclid (ax ay bx b_y : K) : K :=
  let dx := ax - bx
  let dy := ay - b_y
  dx * dx + dy * dy

def euclid [HasSqrt K] (ax ay bx b_y : K) : K :=
  let dx := ax - bx
  let dy := ay - b_y
  HasSqrt.sqrt (dx * dx + dy * dy)

/-! ### edge quantity → site vector (`Mesh.get_quantity_on_site`, tdgl/finite_volume/mesh.py:203-243)

`np.bincount(vertices, weights)` with `vertices = concatenate([edges[:,0], edges[:,1]])` adds, for site `i`,
first the edges whose first end is `i`, then those whose second end is `i`; `counts[i]` is the degree. -/

/-- number of edge ends at site `i` (the `bincount` without weights) -/
def degree (E : Nat) (e0 e1 : Nat → Nat) (i : Nat) : Nat :=
  ((List.range E).filter (fun e => e0 e == i)).length + ((List.range E).filter (fun e => e1 e == i)).length

/-- one Cartesian component: `(Σ_{e: e0 e = i} q_e d_e + Σ_{e: e1 e = i} q_e d_e) / degree / 2` -/
def onSite [Div K] [NatCast K] [OfNat K 2] (E : Nat) (e0 e1 : Nat → Nat) (dir : Nat → K) (q : Nat → K) (i : Nat) : K :=
  (sumTo (fun e => if e0 e = i then q e * dir e else 0) E + sumTo (fun e => if e1 e = i then q e * dir e else 0) E)
    / (degree E e0 e1 i : K) / 2

end Tdgl
