/-
  Model of the input validation that precedes every simulation:
    * `SolverOptions.validate` (tdgl/solver/options.py:91-166): the `if …: raise` chain, in source order;
    * `validate_terminal_currents` (tdgl/solver/solver.py:35-63, after the tolerance fix);
    * the constructor checks of `TDGLSolver.__init__` and the seed check of `solve`, as an ordered list of
      named checks that all run before `DataHandler.__enter__`.
-/
import Tdgl.Scalar
import Tdgl.Adaptive

namespace Tdgl

/-- which sparse solver was requested, after string normalisation -/
inductive SolverKind where
  | superlu | umfpack | pardiso | cupy | unknown
deriving DecidableEq, Repr

/-- the fields of `SolverOptions` that `validate` looks at; `terminalPsiAbs = none` is `terminal_psi = None` -/
structure Opts (K : Type) where
  dtInit : K
  dtMax : K
  terminalPsiAbs : Option K
  mult : K
  drag : K
  stepSize : K
  tol : K
  gpu : Bool
  solver : SolverKind
  haveCupy : Bool         -- is the optional package importable (environment, not an option)
  haveUmfpack : Bool
  havePardiso : Bool

/-- the error classes raised by `validate`, in source order -/
inductive OptErr where
  | dtInitGtMax | terminalPsi | multiplier | drag | stepSize | tolerance | gpuNoCupy
  | unknownSolver | noUmfpack | noPardiso | cupyNeedsGpu
deriving DecidableEq, Repr

variable {K : Type} [LT K] [DecidableLT K] [LE K] [DecidableLE K] [OfNat K 0] [OfNat K 1]

/-- `SolverOptions.validate`: `none` = accepted, `some e` = `SolverOptionsError` of class `e` -/
def Opts.validate (o : Opts K) : Option OptErr :=
  if o.dtMax < o.dtInit then some .dtInitGtMax
  else if (match o.terminalPsiAbs with
           | none => false
           | some a => !(decide (0 ≤ a) && decide (a ≤ 1))) then some .terminalPsi
  else if !(decide (0 < o.mult) && decide (o.mult < 1)) then some .multiplier
  else if !(decide (0 < o.drag) && decide (o.drag ≤ 1)) then some .drag
  else if o.stepSize ≤ 0 then some .stepSize
  else if o.tol ≤ 0 then some .tolerance
  else if o.gpu && !o.haveCupy then some .gpuNoCupy
  else if o.solver = .unknown then some .unknownSolver
  else if o.solver = .umfpack ∧ o.haveUmfpack = false then some .noUmfpack
  else if o.solver = .pardiso ∧ o.havePardiso = false then some .noPardiso
  else if o.solver = .cupy ∧ o.gpu = false then some .cupyNeedsGpu
  else none

section currents
variable {K : Type} [Add K] [Mul K] [Neg K] [LT K] [DecidableLT K] [OfNat K 0]

def absK (x : K) : K := if x < 0 then -x else x

/-- `max((abs(c) for c in currents), default=0)` -/
def maxAbs (l : List K) : K := l.foldl (fun m c => if m < absK c then absK c else m) 0

/-- the repaired acceptance test: reject iff `|Σ I| > relTol · max |I|` (`relTol = 1e-9`) -/
def currentsAccepted (relTol : K) (l : List K) : Bool :=
  !(decide (relTol * maxAbs l < absK (listSum l)))

end currents

/-- the checks that precede `DataHandler.__enter__`, in execution order -/
inductive PreCheck where
  | options | vectorPotentialShape | epsilonLeOne | terminalTouchesBoundary | currentsBalanced | seedDevice
deriving DecidableEq, Repr

/-- `solve` = run all pre-checks; only if all pass is the output file created and the run started.
    `run fs` is whatever the run does to the file system. -/
def guardedSolve {FS Res : Type} (checks : List (PreCheck × Bool)) (run : FS → Res × FS) (fs : FS) :
    Except PreCheck Res × FS :=
  match checks.find? (fun c => c.2 = false) with
  | some c => (.error c.1, fs)
  | none => let r := run fs; (.ok r.1, r.2)

end Tdgl
