/- Bridges from the executable sums / pair-complex numbers of the models to Mathlib. -/
import Mathlib.Algebra.BigOperators.Group.Finset.Basic
import Mathlib.Algebra.BigOperators.Ring.Finset
import Mathlib.Algebra.Field.Basic
import Mathlib.Data.Complex.Basic
import Mathlib.Tactic.Ring
import Tdgl.Scalar

open Finset

namespace Tdgl

/-- the executable sum is the `Finset.range` sum -/
theorem sumTo_eq {K : Type} [AddCommMonoid K] (f : ℕ → K) (n : ℕ) :
    sumTo f n = ∑ i ∈ range n, f i := by
  induction n with
  | zero => simp [sumTo]
  | succ n ih => simp [sumTo, ih, Finset.sum_range_succ]

theorem csumTo_re {K : Type} [AddCommMonoid K] (f : ℕ → Cx K) (n : ℕ) :
    (csumTo f n).re = ∑ i ∈ range n, (f i).re := by
  induction n with
  | zero => simp [csumTo]
  | succ n ih => simp [csumTo, Cx.add, ih, Finset.sum_range_succ]

theorem csumTo_im {K : Type} [AddCommMonoid K] (f : ℕ → Cx K) (n : ℕ) :
    (csumTo f n).im = ∑ i ∈ range n, (f i).im := by
  induction n with
  | zero => simp [csumTo]
  | succ n ih => simp [csumTo, Cx.add, ih, Finset.sum_range_succ]

/-- the pair-complex numbers over `ℝ` are Mathlib's `ℂ` -/
def toC (a : Cx ℝ) : ℂ := ⟨a.re, a.im⟩

theorem toC_injective : Function.Injective toC := by
  intro a b h
  cases a; cases b
  simp only [toC, Complex.mk.injEq] at h
  simp [h.1, h.2]

@[simp] theorem toC_re (a : Cx ℝ) : (toC a).re = a.re := rfl
@[simp] theorem toC_im (a : Cx ℝ) : (toC a).im = a.im := rfl
@[simp] theorem toC_add (a b : Cx ℝ) : toC (Cx.add a b) = toC a + toC b := by
  apply Complex.ext <;> simp [toC, Cx.add]
@[simp] theorem toC_sub (a b : Cx ℝ) : toC (Cx.sub a b) = toC a - toC b := by
  apply Complex.ext <;> simp [toC, Cx.sub]
@[simp] theorem toC_mul (a b : Cx ℝ) : toC (Cx.mul a b) = toC a * toC b := by
  apply Complex.ext <;> simp [toC, Cx.mul]
@[simp] theorem toC_neg (a : Cx ℝ) : toC (Cx.neg a) = - toC a := by
  apply Complex.ext <;> simp [toC, Cx.neg]
@[simp] theorem toC_conj (a : Cx ℝ) : toC (Cx.conj a) = (starRingEnd ℂ) (toC a) := by
  apply Complex.ext <;> simp [toC, Cx.conj]
@[simp] theorem toC_smul (r : ℝ) (a : Cx ℝ) : toC (Cx.smul r a) = (r : ℂ) * toC a := by
  apply Complex.ext <;> simp [toC, Cx.smul]
@[simp] theorem toC_zero : toC (Cx.zero : Cx ℝ) = 0 := by
  apply Complex.ext <;> simp [toC, Cx.zero]
@[simp] theorem toC_one : toC (Cx.one : Cx ℝ) = 1 := by
  apply Complex.ext <;> simp [toC, Cx.one]
@[simp] theorem toC_ofReal (r : ℝ) : toC (Cx.ofReal r) = (r : ℂ) := by
  apply Complex.ext <;> simp [toC, Cx.ofReal]
theorem toC_normSq (a : Cx ℝ) : Cx.normSq a = Complex.normSq (toC a) := by
  simp [Cx.normSq, Complex.normSq_apply, toC]

theorem toC_csumTo (f : ℕ → Cx ℝ) (n : ℕ) : toC (csumTo f n) = ∑ i ∈ range n, toC (f i) := by
  induction n with
  | zero => apply Complex.ext <;> simp [csumTo, toC]
  | succ n ih => simp [csumTo, ih, Finset.sum_range_succ]

end Tdgl
