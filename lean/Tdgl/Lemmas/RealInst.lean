/- The `ℝ` interpretation of the model's two law-free classes. -/
import Mathlib.Analysis.SpecialFunctions.Trigonometric.Basic
import Mathlib.Analysis.SpecialFunctions.Sqrt
import Tdgl.Scalar

noncomputable instance : HasSqrt ℝ := ⟨Real.sqrt⟩
noncomputable instance : HasTrig ℝ := ⟨Real.cos, Real.sin⟩

namespace Tdgl

@[simp] theorem hasSqrt_real (x : ℝ) : HasSqrt.sqrt x = Real.sqrt x := rfl
@[simp] theorem hasCos_real (x : ℝ) : HasTrig.cos x = Real.cos x := rfl
@[simp] theorem hasSin_real (x : ℝ) : HasTrig.sin x = Real.sin x := rfl

theorem Cx.ext' {K : Type} {a b : Cx K} (h1 : a.re = b.re) (h2 : a.im = b.im) : a = b := by
  cases a; cases b; simp_all

theorem Cx.normSq_nonneg (a : Cx ℝ) : 0 ≤ Cx.normSq a := by
  unfold Cx.normSq; nlinarith [mul_self_nonneg a.re, mul_self_nonneg a.im]

end Tdgl
