/- Plain-real algebra behind the citardauq root (helper lemmas for C02, C17). -/
import Mathlib.Data.Real.Basic
import Mathlib.Tactic.Ring
import Mathlib.Tactic.Linarith
import Mathlib.Tactic.FieldSimp
import Mathlib.Tactic.LinearCombination

namespace Tdgl.Quad

theorem quad_root (a b c s : ℝ) (hs : s*s = b*b - 4*a*c) (hden : b+s ≠ 0) :
    a*(2*c/(b+s))*(2*c/(b+s)) - b*(2*c/(b+s)) + c = 0 := by
  field_simp
  linear_combination (c) * hs

theorem small_root (a b c s x : ℝ) (hs : s*s = b*b - 4*a*c) (hden : b+s ≠ 0)
    (hx : x * (b+s) = 2*c) : 2*a*x = b - s := by
  have : (2*a*x - (b - s)) * (b+s) = 0 := by linear_combination (2*a) * hx + hs
  have h0 := (mul_eq_zero.mp this).resolve_right hden
  linarith

/-- Cauchy–Schwarz form: a non-negative discriminant forces `b ≥ 1/2`. -/
theorem b_ge_half (zr zi wr wi : ℝ)
    (h : 0 ≤ (2 * (wr * zr + wi * zi) + 1) * (2 * (wr * zr + wi * zi) + 1)
          - 4 * (zr * zr + zi * zi) * (wr * wr + wi * wi)) :
    1 / 2 ≤ 2 * (wr * zr + wi * zi) + 1 := by
  nlinarith [sq_nonneg (wr * zi - wi * zr)]

/-- a real root of `a x² − b x + c = 0` makes the discriminant non-negative -/
theorem disc_nonneg_of_root (a b c x : ℝ) (h : a*x*x - b*x + c = 0) : 0 ≤ b*b - 4*a*c := by
  have e : b*b - 4*a*c = (2*a*x - b)^2 := by linear_combination (-4*a) * h
  rw [e]; exact sq_nonneg _

end Tdgl.Quad
