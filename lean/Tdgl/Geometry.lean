/-
  Model of the geometric kernels of tdgl:
    * polygons as vertex lists: shoelace signed area, orientation, closing the curve, affine maps
      (tdgl/device/polygon.py:55-79, 206-280; shapely's `orient`, `affinity.*` are the external parts);
    * the mesh geometry of tdgl/finite_volume/util.py: circumcentre (100-124), triangle area (280-298),
      the "kite" of a vertex in a triangle (site, two edge midpoints, circumcentre).
-/
import Tdgl.Scalar

namespace Tdgl
variable {K : Type} [Add K] [Sub K] [Mul K] [Div K] [Neg K] [OfNat K 0] [OfNat K 2]

abbrev Pt (K : Type) := K × K

/-- cross product of two position vectors -/
def cross (p q : Pt K) : K := p.1 * q.2 - q.1 * p.2

/-- twice the signed area of the closed polygon through `v₀, v₁, …, v_{n-1}, v₀` (shoelace) -/
def shoelace2 : List (Pt K) → Pt K → K
  | [], _ => 0
  | [p], first => cross p first
  | p :: q :: rest, first => cross p q + shoelace2 (q :: rest) first

def signedArea2 (l : List (Pt K)) : K :=
  match l with
  | [] => 0
  | p :: _ => shoelace2 l p

/-- affine map `(x, y) ↦ (a x + b y + tx, c x + d y + ty)` -/
structure Affine (K : Type) where
  a : K
  b : K
  c : K
  d : K
  tx : K
  ty : K

def Affine.apply (T : Affine K) (p : Pt K) : Pt K := (T.a * p.1 + T.b * p.2 + T.tx, T.c * p.1 + T.d * p.2 + T.ty)
def Affine.det (T : Affine K) : K := T.a * T.d - T.b * T.c

/-- `close_curve`: append the first point unless the curve is already closed -/
def closeCurve [DecidableEq K] (l : List (Pt K)) : List (Pt K) :=
  match l, l.getLast? with
  | p :: _, some q => if p = q then l else l ++ [p]
  | _, _ => l

/-- `orient`: counter-clockwise (reverse when the signed area is negative) -/
def orientCCW [LT K] [DecidableLT K] (l : List (Pt K)) : List (Pt K) :=
  if signedArea2 l < 0 then l.reverse else l

/-! ### triangles -/

/-- twice the signed area of triangle `(p, q, r)` -/
def triArea2 (p q r : Pt K) : K := (q.1 - p.1) * (r.2 - p.2) - (r.1 - p.1) * (q.2 - p.2)

/-- circumcentre as coded in `generate_voronoi_vertices` (A at the origin, then shifted back) -/
def circumcentre (A B C : Pt K) : Pt K :=
  let bx := B.1 - A.1
  let b_y := B.2 - A.2
  let cx := C.1 - A.1
  let cy := C.2 - A.2
  let D := 2 * bx * cy - 2 * b_y * cx
  let b2 := bx * bx + b_y * b_y
  let c2 := cx * cx + cy * cy
  ((cy * b2 - b_y * c2) / D + A.1, (bx * c2 - cx * b2) / D + A.2)

def mid (p q : Pt K) : Pt K := ((p.1 + q.1) / 2, (p.2 + q.2) / 2)
def dist2 (p q : Pt K) : K := (p.1 - q.1) * (p.1 - q.1) + (p.2 - q.2) * (p.2 - q.2)

/-- twice the signed area of the kite of vertex `A` in triangle `(A, B, C)`:
    quadrilateral `A → mid(A,B) → O → mid(A,C)` -/
def kite2 (A B C : Pt K) : K :=
  let O := circumcentre A B C
  triArea2 A (mid A B) O + triArea2 A O (mid A C)

end Tdgl
