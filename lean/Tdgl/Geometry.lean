/-
  Model of the geometric kernels of tdgl:
    * polygons as vertex lists: shoelace signed area, orientation, closing the curve, affine maps
      (tdgl/device/polygon.py:55-79, 206-280; shapely's `orient`, `affinity.*` are the external parts);
    * the mesh geometry of tdgl/finite_volume/util.py: circumcentre (100-124), triangle area (280-298),
      the "kite" of a vertex in a triangle (site, two edge midpoints, circumcentre).
-/
import Tdgl.Scalar

namespace Tdgl
variable {K : Type} [Add K] [Sub K] [Mul K] [Div K] [Neg K] [OfNat K 0] [OfNat K 2]

abbrev Pt (K : Type) := K × K

/-- cross product of two position vectors -/
def cross (p q : Pt K) : K := p.1 * q.2 - q.1 * p.2

/-- twice the signed area of the closed polygon through `v₀, v₁, …, v_{n-1}, v₀` (shoelace) -/
def shoelace2 : List (Pt K) → Pt K → K
  | [], _ => 0
  | [p], first => cross p first
  | p :: q :: rest, first => cross p q + shoelace2 (q :: rest) first

def signedArea2 (l : List (Pt K)) : K :=
  match l with
  | [] => 0
  | p :: _ => shoelace2 l p

/-- affine map `(x, y) ↦ (a x + b y + tx, c x + d y + ty)` -/
structure Affine (K : Type) where
  a : K
  b : K
  c : K
  d : K
  tx : K
  ty : K

def Affine.apply (T : Affine K) (p : Pt K) : Pt K := (T.a * p.1 + T.b * p.2 + T.tx, T.c * p.1 + T.d * p.2 + T.ty)
def Affine.det (T : Affine K) : K := T.a * T.d - T.b * T.c

/-- `close_curve`: append the first point unless the curve is already closed -/
def closeCurve [DecidableEq K] (l : List (Pt K)) : List (Pt K) :=
  match l, l.getLast? with
  | p :: _, some q => if p = q then l else l ++ [p]
  | _, _ => l

/-- `orient`: counter-clockwise (reverse when the signed area is negative) -/
def orientCCW [LT K] [DecidableLT K] (l : List (Pt K)) : List (Pt K) :=
  if signedArea2 l < 0 then l.reverse else l

/-! ### triangles -/

/-- twice the signed area of triangle `(p, q, r)` -/
def triArea2 (p q r : Pt K) : K := (q.1 - p.1) * (r.2 - p.2) - (r.1 - p.1) * (q.2 - p.2)

/-- circumcentre as coded in `generate_voronoi_vertices` (A at the origin, then shifted back) -/
def circumcentre (A B C : Pt K) : Pt K :=
  let bx := B.1 - A.1
  let b_y := B.2 - A.2
  let cx := C.1 - A.1
  let cy := C.2 - A.2
  let D := 2 * bx * cy - 2 * b_y * cx
  let b2 := bx * bx + b_y * b_y
  let c2 := cx * cx + cy * cy
  ((cy * b2 - b_y * c2) / D + A.1, (bx * c2 - cx * b2) / D + A.2)

def mid (p q : Pt K) : Pt K := ((p.1 + q.1) / 2, (p.2 + q.2) / 2)
def dist2 (p q : Pt K) : K := (p.1 - q.1) * (p.1 - q.1) + (p.2 - q.2) * (p.2 - q.2)

/-- twice the signed area of the kite of vertex `A` in triangle `(A, B, C)`:
    quadrilateral `A → mid(A,B) → O → mid(A,C)` -/
def kite2 (A B C : Pt K) : K :=
  let O := circumcentre A B C
  triArea2 A (mid A B) O + triArea2 A O (mid A C)

/-! ### dual edges (tdgl/finite_volume/util.py `get_dual_edge_lengths`, 59-97)

The dual length of an inner edge is coded as the **unsigned** distance between the circumcentres of the two
triangles on it, `norm(dual_sites[t0] - dual_sites[t1])`; that of a boundary edge as the distance from the
single circumcentre to the edge centre.  `ccOffset` is the signed position of a circumcentre on the
perpendicular bisector of `AB` (in units of `|AB|`, positive on the left of `A → B`, i.e. on the side of `C`
for a positively oriented triangle): it is `cot(∠ACB) / 2`. -/

/-- signed offset of the circumcentre of `(A, B, C)` from `mid A B` along `perp (B − A) = (−(B−A).2, (B−A).1)` -/
def ccOffset (A B C : Pt K) : K :=
  ((A.1 - C.1) * (B.1 - C.1) + (A.2 - C.2) * (B.2 - C.2)) / (2 * triArea2 A B C)

/-- the in-circle determinant: positive iff `D` lies strictly inside the circumcircle of the positively
    oriented triangle `(A, B, C)` -/
def inCircle (A B C D : Pt K) : K :=
  let ax := A.1 - D.1
  let ay := A.2 - D.2
  let bx := B.1 - D.1
  let b_y := B.2 - D.2
  let cx := C.1 - D.1
  let cy := C.2 - D.2
  (ax * ax + ay * ay) * (bx * cy - cx * b_y) - (bx * bx + b_y * b_y) * (ax * cy - cx * ay)
    + (cx * cx + cy * cy) * (ax * b_y - bx * ay)

/-- squared dual length of the inner edge `AB` shared by the triangles `(A, B, C)` and `(B, A, D)`, as coded -/
def dualInner2 (A B C D : Pt K) : K := dist2 (circumcentre A B C) (circumcentre B A D)

/-- squared dual length of the boundary edge `AB` of the triangle `(A, B, C)`, as coded -/
def dualBoundary2 (A B C : Pt K) : K := dist2 (circumcentre A B C) (mid A B)

end Tdgl
