/-
  Model of tdgl/finite_volume/operators.py: the finite-volume operators as row functions
  (action on an arbitrary vector), over an arbitrary scalar type.

  Arrays are index functions `Nat → K` plus a length; sums are `sumTo`.  COO assembly with
  duplicates summed (scipy) is the sum over edges of the contributions to a row.

  build_divergence (59-84):   rows [e0,e1], cols [e,e], values [ s/a[e0], -s/a[e1] ]
  build_gradient  (87-117):   rows [e,e],  cols [e1,e0], values [ U/ℓ, -1/ℓ ]
  build_laplacian (120-185):  rows [e0,e1,e0,e1], cols [e1,e0,e0,e1],
                              values [ wU/a0, w conj(U)/a1, -w/a0, -w/a1 ], w = s/ℓ;
                              entries whose row is a fixed site are dropped, fixed sites get a diagonal 1
  build_neumann_boundary_laplacian (188-230): rows [b0,b1], cols [b,b], values ℓ_b/(2 a)
  get_supercurrent (385-394): Im( conj(ψ[e0]) * (∇_A ψ)_e )
-/
import Tdgl.Scalar

namespace Tdgl

/-- A finite-volume mesh: `n` sites, `E` edges `(e0 e, e1 e)`, edge lengths, dual lengths,
    cell areas, and `nb` boundary edges listed by their edge index. -/
structure FVMesh (K : Type) where
  n : Nat
  E : Nat
  e0 : Nat → Nat
  e1 : Nat → Nat
  len : Nat → K
  dual : Nat → K
  area : Nat → K
  nb : Nat
  bidx : Nat → Nat

namespace FVMesh
variable {K : Type}

/-- the decidable part of well-formedness (asserted by the harness on every mesh) -/
structure WF (m : FVMesh K) : Prop where
  lt : ∀ e, e < m.E → m.e0 e < m.e1 e
  inRange : ∀ e, e < m.E → m.e1 e < m.n
  distinct : ∀ e e', e < m.E → e' < m.E → m.e0 e = m.e0 e' → m.e1 e = m.e1 e' → e = e'
  bRange : ∀ b, b < m.nb → m.bidx b < m.E
  bDistinct : ∀ b b', b < m.nb → b' < m.nb → m.bidx b = m.bidx b' → b = b'

end FVMesh

section real_ops
variable {K : Type} [Add K] [Sub K] [Mul K] [Div K] [Neg K] [OfNat K 0] [OfNat K 1] [OfNat K 2]

/-- Laplacian edge weight `s_e / ℓ_e` -/
def FVMesh.w (m : FVMesh K) (e : Nat) : K := m.dual e / m.len e

/-- `(D F)_r` : divergence of an edge field on site `r` -/
def divRow (m : FVMesh K) (F : Nat → K) (r : Nat) : K :=
  sumTo (fun e =>
    (if m.e0 e = r then m.dual e / m.area (m.e0 e) * F e else 0) +
    (if m.e1 e = r then (-(m.dual e)) / m.area (m.e1 e) * F e else 0)) m.E

/-- `(G g)_e` : gradient of a site field on edge `e` (no link variable) -/
def gradEdge (m : FVMesh K) (g : Nat → K) (e : Nat) : K :=
  (1 : K) / m.len e * g (m.e1 e) + (-((1 : K) / m.len e)) * g (m.e0 e)

/-- `(L g)_r` : the scalar (mu) Laplacian, pure Neumann, no fixed sites -/
def lapRow (m : FVMesh K) (g : Nat → K) (r : Nat) : K :=
  sumTo (fun e =>
    (if m.e0 e = r then m.w e / m.area (m.e0 e) * g (m.e1 e) else 0) +
    (if m.e1 e = r then m.w e / m.area (m.e1 e) * g (m.e0 e) else 0) +
    (if m.e0 e = r then (-(m.w e)) / m.area (m.e0 e) * g (m.e0 e) else 0) +
    (if m.e1 e = r then (-(m.w e)) / m.area (m.e1 e) * g (m.e1 e) else 0)) m.E

/-- `(B μ_b)_r` : Neumann boundary-flux matrix, half an edge to each endpoint -/
def neuRow (m : FVMesh K) (mb : Nat → K) (r : Nat) : K :=
  sumTo (fun b =>
    (if m.e0 (m.bidx b) = r then m.len (m.bidx b) / (2 * m.area (m.e0 (m.bidx b))) * mb b else 0) +
    (if m.e1 (m.bidx b) = r then m.len (m.bidx b) / (2 * m.area (m.e1 (m.bidx b))) * mb b else 0)) m.nb

end real_ops

section complex_ops
variable {K : Type} [Add K] [Sub K] [Mul K] [Div K] [Neg K] [OfNat K 0] [OfNat K 1] [OfNat K 2]

/-- covariant gradient `(∇_A ψ)_e = (U_e ψ_{e1} − ψ_{e0}) / ℓ_e` with `U_e = exp(-i θ_e)` given -/
def cgradEdge (m : FVMesh K) (U : Nat → Cx K) (psi : Nat → Cx K) (e : Nat) : Cx K :=
  Cx.add (Cx.mul (Cx.smul ((1 : K) / m.len e) (U e)) (psi (m.e1 e)))
         (Cx.smul (-((1 : K) / m.len e)) (psi (m.e0 e)))

/-- covariant Laplacian row; `fixed r = true` ⇒ identity row (eigenvalue 1) -/
def clapRow (m : FVMesh K) (fixed : Nat → Bool) (U : Nat → Cx K) (psi : Nat → Cx K) (r : Nat) : Cx K :=
  if fixed r then psi r else
  csumTo (fun e =>
    Cx.add (Cx.add (Cx.add
      (if m.e0 e = r then Cx.mul (Cx.smul (m.w e / m.area (m.e0 e)) (U e)) (psi (m.e1 e)) else Cx.zero)
      (if m.e1 e = r then Cx.mul (Cx.smul (m.w e / m.area (m.e1 e)) (Cx.conj (U e))) (psi (m.e0 e)) else Cx.zero))
      (if m.e0 e = r then Cx.smul ((-(m.w e)) / m.area (m.e0 e)) (psi (m.e0 e)) else Cx.zero))
      (if m.e1 e = r then Cx.smul ((-(m.w e)) / m.area (m.e1 e)) (psi (m.e1 e)) else Cx.zero)) m.E

/-- supercurrent on edge `e` : `Im( conj(ψ_{e0}) (∇_A ψ)_e )` -/
def superEdge (m : FVMesh K) (U : Nat → Cx K) (psi : Nat → Cx K) (e : Nat) : K :=
  (Cx.mul (Cx.conj (psi (m.e0 e))) (cgradEdge m U psi e)).im

end complex_ops

/-- link variable from a link exponent: `U_e = exp(-i θ_e)`, `θ_e = A_e · d_e` -/
def linkOf {K : Type} [Neg K] [HasTrig K] (theta : Nat → K) (e : Nat) : Cx K := Cx.expNegI (theta e)

end Tdgl

/-! ### Matrix entries and the in-place refresh of `MeshOperators.set_link_exponents` (310-383) -/
namespace Tdgl
section entries
variable {K : Type} [Add K] [Sub K] [Mul K] [Div K] [Neg K] [OfNat K 0] [OfNat K 1] [OfNat K 2]

/-- entry `(i, j)` of the covariant Laplacian as `build_laplacian` assembles it (duplicates summed):
    four COO blocks, entries in fixed rows dropped, diagonal 1 on fixed sites -/
def clapEntry (m : FVMesh K) (fixed : Nat → Bool) (U : Nat → Cx K) (i j : Nat) : Cx K :=
  Cx.add
    (csumTo (fun e =>
      Cx.add (Cx.add (Cx.add
        (if m.e0 e = i ∧ m.e1 e = j ∧ fixed i = false
          then Cx.smul (m.w e / m.area (m.e0 e)) (U e) else Cx.zero)
        (if m.e1 e = i ∧ m.e0 e = j ∧ fixed i = false
          then Cx.smul (m.w e / m.area (m.e1 e)) (Cx.conj (U e)) else Cx.zero))
        (if m.e0 e = i ∧ m.e0 e = j ∧ fixed i = false
          then Cx.ofReal ((-(m.w e)) / m.area (m.e0 e)) else Cx.zero))
        (if m.e1 e = i ∧ m.e1 e = j ∧ fixed i = false
          then Cx.ofReal ((-(m.w e)) / m.area (m.e1 e)) else Cx.zero)) m.E)
    (if fixed i = true ∧ i = j then Cx.one else Cx.zero)

/-- entry `(e, j)` of the covariant gradient as `build_gradient` assembles it -/
def cgradEntry (m : FVMesh K) (U : Nat → Cx K) (e j : Nat) : Cx K :=
  Cx.add (if m.e1 e = j then Cx.smul ((1 : K) / m.len e) (U e) else Cx.zero)
         (if m.e0 e = j then Cx.ofReal (-((1 : K) / m.len e)) else Cx.zero)

/-- scipy's `M[rows, cols] = vals` for index lists of length `L`, restricted to the positions
    with `keep t = true` (the boolean mask of the code); a later position wins. -/
def setMany (M : Nat → Nat → Cx K) (rows cols : Nat → Nat) (vals : Nat → Cx K) (keep : Nat → Bool) :
    Nat → Nat → Nat → Cx K
  | 0, i, j => M i j
  | L+1, i, j =>
    if keep L = true ∧ rows L = i ∧ cols L = j then vals L
    else setMany M rows cols vals keep L i j

/-- `laplacian_link_rows = concat[e0, e1]` -/
def linkRow (m : FVMesh K) (t : Nat) : Nat := if t < m.E then m.e0 t else m.e1 (t - m.E)
/-- `laplacian_link_cols = concat[e1, e0]` -/
def linkCol (m : FVMesh K) (t : Nat) : Nat := if t < m.E then m.e1 t else m.e0 (t - m.E)
/-- `concat[w U / a[e0], w conj(U) / a[e1]]` -/
def linkVal (m : FVMesh K) (U : Nat → Cx K) (t : Nat) : Cx K :=
  if t < m.E then Cx.smul (m.w t / m.area (m.e0 t)) (U t)
  else Cx.smul (m.w (t - m.E) / m.area (m.e1 (t - m.E))) (Cx.conj (U (t - m.E)))

/-- the refresh branch of `set_link_exponents` for the Laplacian: overwrite the `2E` link entries,
    except those whose row is fixed (`laplacian_free_rows[:2E]`) -/
def refreshLap (m : FVMesh K) (fixed : Nat → Bool) (M : Nat → Nat → Cx K) (U : Nat → Cx K) :
    Nat → Nat → Cx K :=
  setMany M (linkRow m) (linkCol m) (linkVal m U) (fun t => !(fixed (linkRow m t))) (2 * m.E)

/-- the refresh branch for the gradient: entries `(e, e1 e)` are overwritten with `U_e / ℓ_e` -/
def refreshGrad (m : FVMesh K) (M : Nat → Nat → Cx K) (U : Nat → Cx K) : Nat → Nat → Cx K :=
  setMany M (fun e => e) m.e1 (fun e => Cx.smul ((1 : K) / m.len e) (U e)) (fun _ => true) m.E

end entries
end Tdgl
