/-
  Model of `DataHandler` (tdgl/solver/runner.py:29-183) composed with the simulation loop and with
  injected faults — what `TDGLSolver.solve` does between `with DataHandler(...)` and its exit.

  File system: the names the handler can touch are `<name>[-<serial>].<suffix>` and the same with
  `.tmp` appended; a name is `(serial, tmp?)`.  A file records the labels of its completely written
  frames, whether a partially written frame group is present, and whether a handle is still open.

  `_create_output_file` (78-102, after the fix that removes the orphan): for serial = none, 1, 2, …
      create `<serial>` exclusively; create `<serial>.tmp` exclusively; if either fails, undo and go on.
  `save_time_step` (after the fix): a fault inside the writer removes the partial group and re-raises.
  `__exit__`/`close` (119-137): close the output, close and remove the tmp file (and the temp dir).
  Loop: `Runner._run_stage` with `try … except KeyboardInterrupt` around one iteration; the final save
  after the loop is outside the `try`.
-/
import Tdgl.Scalar
import Tdgl.Runner

namespace Tdgl

/-- file names in the output directory: optional serial number, and whether it is the `.tmp` companion -/
abbrev FName := Option Nat × Bool

structure H5File where
  frames : List Nat := []     -- labels of the completely written frames, in file order
  partialFrame : Bool := false
  isOpen : Bool := false
deriving DecidableEq, Repr

abbrev FS := FName → Option H5File

def FS.set (fs : FS) (n : FName) (f : Option H5File) : FS := fun m => if m = n then f else fs m

/-- the serial tried after `s` -/
def nextSerial : Option Nat → Option Nat
  | none => some 1
  | some k => some (k + 1)

/-- `_create_output_file`: returns the chosen serial and the new file system; `fuel` bounds the search
    (a create fails only because the name exists). -/
def createOutput : Nat → Option Nat → FS → Option (Option Nat × FS)
  | 0, _, _ => none
  | fuel+1, s, fs =>
    match fs (s, false) with
    | some _ => createOutput fuel (nextSerial s) fs          -- "x" mode fails: name exists
    | none =>
      match fs (s, true) with
      | some _ => createOutput fuel (nextSerial s) fs        -- tmp exists: the new file is closed and removed
      | none =>
        some (s, (fs.set (s, false) (some { isOpen := true })).set (s, true) (some { isOpen := true }))

inductive Fault where
  | error
  | interrupt
deriving DecidableEq, Repr

/-- where faults are injected: inside the update called at loop index `i` of a stage
    (`stage = 0` thermalisation, `1` recorded), or inside the `j`-th call of the frame writer -/
structure Faults where
  upd : Nat → Nat → Option Fault
  save : Nat → Option Fault

/-- how a stage ended -/
inductive StageOutcome (K S R : Type) where
  | finished (e : StageEnd K S R) (saves : Nat)
  | cancelled (e : StageEnd K S R) (saves : Nat)     -- KeyboardInterrupt turned into cancellation
  | raised (frames : List (Frame K S R)) (f : Fault)  -- the exception leaves the loop
  | outOfFuel

variable {K S R : Type} [Add K] [LE K] [DecidableLE K] [OfNat K 0]

/-- one attempt to write a frame: `none` = written, `some f` = the writer raised `f` and (after the
    fix) left nothing behind -/
def trySave (flt : Faults) (saves : Nat) (fr : List (Frame K S R)) (x : Frame K S R) :
    Option Fault × List (Frame K S R) × Nat :=
  match flt.save saves with
  | none => (none, fr ++ [x], saves + 1)
  | some f => (some f, fr, saves + 1)

/-- the final save after the loop (outside the `try`): a fault there propagates, whatever its kind -/
def finalSave (flt : Faults) (save : Bool) (k i : Nat) (t : K) (s : S) (buf : List R)
    (fr : List (Frame K S R)) (saves : Nat) (cancelled : Bool) : StageOutcome K S R :=
  if save = true ∧ i % k ≠ 0 then
    match trySave flt saves fr (mkFrame i t s buf) with
    | (none, fr', saves') =>
      if cancelled then .cancelled ⟨i, t, s, fr'⟩ saves' else .finished ⟨i, t, s, fr'⟩ saves'
    | (some f, fr', _) => .raised fr' f
  else if cancelled then .cancelled ⟨i, t, s, fr⟩ saves else .finished ⟨i, t, s, fr⟩ saves

/-- `_run_stage` with faults -/
def runStageF (upd : S → Nat → K → K × S × R) (flt : Faults) (stage : Nat) (save : Bool) (k : Nat) (T : K) :
    Nat → Nat → K → S → List R → List (Frame K S R) → Nat → StageOutcome K S R
  | 0, _, _, _, _, _, _ => .outOfFuel
  | fuel+1, i, t, s, buf, fr, saves =>
    let buf' := if i % k = 0 then [] else buf
    -- the save at a multiple of `k` (inside the try)
    let r := if i % k = 0 ∧ save = true then trySave flt saves fr (mkFrame i t s buf) else (none, fr, saves)
    match r with
    | (some .error, fr', _) => .raised fr' .error
    | (some .interrupt, fr', saves') => finalSave flt save k i t s buf' fr' saves' true
    | (none, fr', saves') =>
      if T ≤ t then finalSave flt save k i t s buf' fr' saves' false
      else
        match flt.upd stage i with
        | some .error => .raised fr' .error
        | some .interrupt => finalSave flt save k i t s buf' fr' saves' true
        | none =>
          let u := upd s i t
          runStageF upd flt stage save k T fuel (i+1) (t + u.1) u.2.1 (buf' ++ [u.2.2]) fr' saves'

/-- what `tdgl.solve` hands back -/
inductive SolveResult where
  | solution            -- a `Solution` built from the output file
  | noSolution          -- `None`: cancelled during thermalisation, or nothing was recorded
  | exception (f : Fault)
  | stuck               -- out of fuel (model artefact)
deriving DecidableEq, Repr

/-- everything between `__enter__` and `__exit__`, then `__exit__`.  Returns the result, the serial of the
    output file and the final file system. -/
def solveF (upd : S → Nat → K → K × S × R) (flt : Faults) (k : Nat) (skip : Option K) (T : K) (fuel : Nat)
    (s0 : S) (fs0 : FS) : Option (SolveResult × Option Nat × FS) :=
  match createOutput fuel none fs0 with
  | none => none
  | some (ser, fs1) =>
    -- `__exit__`: close the output (keeping what was written), remove the tmp file
    let exit (frames : List (Frame K S R)) : FS :=
      (fs1.set (ser, false) (some { frames := frames.map (·.step), isOpen := false })).set (ser, true) none
    let sim (s1 : S) : SolveResult × Option Nat × FS :=
      match runStageF upd flt 1 true k T fuel 0 0 s1 [] [] 0 with
      | .finished e _ => (if e.frames = [] then .noSolution else .solution, ser, exit e.frames)
      | .cancelled e _ => (if e.frames = [] then .noSolution else .solution, ser, exit e.frames)
      | .raised fr f => (.exception f, ser, exit fr)
      | .outOfFuel => (.stuck, ser, exit [])
    match skip with
    | none => some (sim s0)
    | some Ts =>
      match runStageF upd flt 0 false k Ts fuel 0 0 s0 [] [] 0 with
      | .finished e _ => some (sim e.state)
      | .cancelled _ _ => some (.noSolution, ser, exit [])
      | .raised _ f => some (.exception f, ser, exit [])
      | .outOfFuel => some (.stuck, ser, exit [])

/-- no faults anywhere -/
def noFaults : Faults := ⟨fun _ _ => none, fun _ => none⟩

end Tdgl
