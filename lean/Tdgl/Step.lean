/-
  Model of `TDGLSolver.solve_for_psi_squared` (tdgl/solver/solver.py:384-439), one site.

  Python (per site; `lap = (psi_laplacian @ psi)[i]`):
      U = exp(-1j * mu * dt)
      z = U * gamma**2 / 2 * psi
      w = z * abs_sq_psi + U * (psi + (dt/u) * sqrt(1 + gamma**2 * abs_sq_psi)
                                     * ((epsilon - abs_sq_psi) * psi + lap))
      c = w.real*z.real + w.imag*z.imag ; two_c_1 = 2*c + 1
      w2 = absolute(w)**2 ; discriminant = two_c_1**2 - 4*absolute(z)**2*w2
      if any(discriminant < 0): return None
      new_sq_psi = 2*w2 / (two_c_1 + sqrt(discriminant)) ; psi = w - z*new_sq_psi
-/
import Tdgl.Scalar

namespace Tdgl
variable {K : Type} [Add K] [Sub K] [Mul K] [Div K] [Neg K]
  [OfNat K 0] [OfNat K 1] [OfNat K 2] [OfNat K 4] [LT K] [DecidableLT K] [HasSqrt K] [HasTrig K]

/-- `np.absolute(a)**2` : modulus (a square root), then squared. -/
def absSq (a : Cx K) : K :=
  let m := HasSqrt.sqrt (Cx.normSq a)
  m * m

/-- the temporal link variable `U = exp(-i mu dt)` -/
def linkU (mu dt : K) : Cx K := Cx.expNegI (mu * dt)

/-- `z = U * gamma**2 / 2 * psi` (docs/background.rst, eq. `z`) -/
def zOf (psi : Cx K) (mu gamma dt : K) : Cx K :=
  Cx.mul (Cx.smul ((gamma * gamma) / 2) (linkU mu dt)) psi

/-- `w` (docs/background.rst, eq. `w`); `a = abs_sq_psi` is passed by the caller. -/
def wOf (psi : Cx K) (a mu eps gamma u dt : K) (lap : Cx K) : Cx K :=
  let z := zOf psi mu gamma dt
  let s := (dt / u) * HasSqrt.sqrt (1 + (gamma * gamma) * a)
  let inner := Cx.add (Cx.smul (eps - a) psi) lap
  Cx.add (Cx.smul a z) (Cx.mul (linkU mu dt) (Cx.add psi (Cx.smul s inner)))

/-- discriminant of the per-site quadratic, as coded -/
def discOf (z w : Cx K) : K :=
  let c := w.re * z.re + w.im * z.im
  let b := 2 * c + 1
  b * b - 4 * absSq z * absSq w

/-- The closed-form root. `none` = refused (`discriminant < 0`). -/
def solveSite (z w : Cx K) : Option (Cx K × K) :=
  let c := w.re * z.re + w.im * z.im
  let b := 2 * c + 1
  let w2 := absSq w
  let disc := b * b - 4 * absSq z * w2
  if disc < 0 then none
  else
    let x := (2 * w2) / (b + HasSqrt.sqrt disc)
    some (Cx.sub w (Cx.smul x z), x)

/-- one site of `solve_for_psi_squared` -/
def stepSite (psi : Cx K) (a mu eps gamma u dt : K) (lap : Cx K) : Option (Cx K × K) :=
  solveSite (zOf psi mu gamma dt) (wOf psi a mu eps gamma u dt lap)

/-- all sites: the whole update is refused iff some site is refused (`xp.any(discriminant < 0)`);
    otherwise the per-site answers in site order. -/
def solveAll (n : Nat) (z w : Nat → Cx K) : Option (List (Cx K × K)) :=
  if (List.range n).all (fun i => (solveSite (z i) (w i)).isSome) then
    some ((List.range n).filterMap (fun i => solveSite (z i) (w i)))
  else none

end Tdgl
