/-
  Model of tdgl/parameter.py: `Parameter`, `CompositeParameter` (after the three fixes:
  `_clear_cache` tests the operand, `__init__` sets `_use_cache`, `__setstate__` restores the slots).

  Two layers:
  * `PExpr` — the expression language and its evaluation (`CompositeParameter.__call__`: `t` is passed
    only to time-dependent operands, `z` to every Parameter operand; a leaf called with a `z` it does
    not take, without a `z` it needs, with a `t` it does not take or without a `t` it needs raises
    `TypeError`).  Arithmetic on values is an arbitrary `ap : BinOp → K → K → K` (numpy / IEEE
    semantics: no exception; Python-scalar `ZeroDivisionError` is outside the model).
  * `PObj` — the same trees decorated with the *presence* of the slot attributes `_cache`,
    `_use_cache`, `time_dependent` on every Parameter object, to express that constructing, nesting,
    clearing and unpickling never raise `AttributeError`.
-/
import Tdgl.Scalar

namespace Tdgl

inductive BinOp where
  | add | sub | mul | div | pow
deriving DecidableEq, Repr

inductive PErr where
  | typeError | attributeError
deriving DecidableEq, Repr

/-- a leaf `Parameter`: identity of its function + kwargs, whether the function takes `z`,
    whether it is time dependent -/
structure Leaf where
  id : Nat
  dim3 : Bool
  td : Bool
deriving DecidableEq, Repr

/-- call arguments: `z` and `t` are optional (`None`) -/
structure Args (K : Type) where
  x : K
  y : K
  z : Option K
  t : Option K

inductive PExpr (K : Type) where
  | leaf (l : Leaf)
  | num (v : K)
  | comp (l : PExpr K) (op : BinOp) (r : PExpr K)
deriving DecidableEq, Repr

namespace PExpr
variable {K : Type}

/-- `time_dependent`, as propagated by `CompositeParameter.__init__` -/
def td : PExpr K → Bool
  | leaf l => l.td
  | num _ => false
  | comp l _ r => td l || td r

def isNum : PExpr K → Bool
  | num _ => true
  | _ => false

def leaves : PExpr K → List Leaf
  | leaf l => [l]
  | num _ => []
  | comp l _ r => leaves l ++ leaves r

def depth : PExpr K → Nat
  | comp l _ r => 1 + max (depth l) (depth r)
  | _ => 0

/-- the constructor's type checks: number (op) number is rejected -/
def mk (l : PExpr K) (op : BinOp) (r : PExpr K) : Except PErr (PExpr K) :=
  if l.isNum && r.isNum then .error .typeError else .ok (comp l op r)

variable [OfNat K 0]

/-- `Parameter.__call__` on a leaf: the function is `env id x y z t` -/
def leafCall (env : Nat → K → K → K → K → K) (l : Leaf) (a : Args K) : Except PErr K :=
  if l.dim3 != a.z.isSome then .error .typeError
  else if l.td != a.t.isSome then .error .typeError
  else .ok (env l.id a.x a.y (a.z.getD 0) (a.t.getD 0))

/-- evaluation; a bare number is not callable, it only occurs as an operand -/
def eval (env : Nat → K → K → K → K → K) (ap : BinOp → K → K → K) : PExpr K → Args K → Except PErr K
  | leaf l, a => leafCall env l a
  | num _, _ => .error .typeError
  | comp l op r, a =>
    let operand (e : PExpr K) (rec : Args K → Except PErr K) : Except PErr K :=
      match e with
      | num v => .ok v
      | e => if e.td then rec a else rec { a with t := none }
    match operand l (eval env ap l) with
    | .error e => .error e
    | .ok vl =>
      match operand r (eval env ap r) with
      | .error e => .error e
      | .ok vr => .ok (ap op vl vr)

/-- the value an operand contributes (what "evaluating the operand" means in the property) -/
def operandValue (env : Nat → K → K → K → K → K) (ap : BinOp → K → K → K) (e : PExpr K) (a : Args K) :
    Except PErr K :=
  match e with
  | num v => .ok v
  | e => if e.td then eval env ap e a else eval env ap e { a with t := none }

/-- `__eq__`: structural (operators by identity, leaves by function code and kwargs, numbers by value) -/
def beq [DecidableEq K] : PExpr K → PExpr K → Bool
  | leaf a, leaf b => a == b
  | num v, num w => decide (v = w)
  | comp l op r, comp l' op' r' => beq l l' && decide (op = op') && beq r r'
  | _, _ => false

end PExpr

/-! ### attribute presence -/

/-- which of the slot attributes exist on an object -/
structure Attrs where
  cache : Bool
  useCache : Bool
  td : Bool
deriving DecidableEq, Repr

def Attrs.all : Attrs := ⟨true, true, true⟩

inductive PObj (K : Type) where
  | leaf (l : Leaf) (att : Attrs)
  | num (v : K)
  | comp (l : PObj K) (op : BinOp) (r : PObj K) (att : Attrs)
deriving Repr

namespace PObj
variable {K : Type}

def attrs : PObj K → Option Attrs
  | leaf _ a => some a
  | num _ => none
  | comp _ _ _ a => some a

def isNum : PObj K → Bool
  | num _ => true
  | _ => false

def erase : PObj K → PExpr K
  | leaf l _ => .leaf l
  | num v => .num v
  | comp l op r _ => .comp (erase l) op (erase r)

/-- `Parameter(func, …)` sets all three slots -/
def newLeaf (l : Leaf) : PObj K := leaf l Attrs.all

/-- reading `operand.time_dependent` and, when true, `operand._use_cache` (what `__init__` does) -/
def readForInit (o : PObj K) : Except PErr Unit :=
  match o.attrs with
  | none => .ok ()
  | some a =>
    if !a.td then .error .attributeError
    else if (erase o).td && !a.useCache then .error .attributeError
    else .ok ()

/-- `CompositeParameter(left, right, op)`; `initAttrs` = the slots `__init__` sets
    (`Attrs.all` after the fix; `⟨true, false, true⟩` in the pinned tree) -/
def construct (initAttrs : Attrs) (l : PObj K) (op : BinOp) (r : PObj K) : Except PErr (PObj K) :=
  if l.isNum && r.isNum then .error .typeError else
  match readForInit l with
  | .error e => .error e
  | .ok _ =>
    match readForInit r with
    | .error e => .error e
    | .ok _ => .ok (comp l op r initAttrs)

/-- `_clear_cache`: needs `_cache` on every Parameter object of the tree (after the fix it tests the
    operand, not `operand._cache`, so numbers are skipped) -/
def clearCache : PObj K → Except PErr Unit
  | leaf _ a => if a.cache then .ok () else .error .attributeError
  | num _ => .ok ()
  | comp l _ r a =>
    if !a.cache then .error .attributeError else
    match (match r with | num _ => Except.ok () | r => clearCache r) with
    | .error e => .error e
    | .ok _ => (match l with | num _ => .ok () | l => clearCache l)

/-- pickle → unpickle.  Leaves use the default slot pickling (all attributes kept).
    `setAttrs` = the slots present after `__setstate__` (`Attrs.all` after the fix, none before). -/
def roundtrip (setAttrs : Attrs) : PObj K → PObj K
  | leaf l a => leaf l a
  | num v => num v
  | comp l op r _ => comp (roundtrip setAttrs l) op (roundtrip setAttrs r) setAttrs

/-- every Parameter object of the tree has all its slot attributes -/
def WellFormed : PObj K → Prop
  | leaf _ a => a = Attrs.all
  | num _ => True
  | comp l _ r a => a = Attrs.all ∧ WellFormed l ∧ WellFormed r

end PObj

end Tdgl
