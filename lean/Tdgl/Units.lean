/-
  Model of the unit handling (tdgl/device/device.py:152-168, tdgl/solver/solver.py:175-185,251-256,306-309,
  tdgl/em.py:437-472).  A unit system is three positive numbers: the SI value of one length unit `lu`,
  one field unit `fu`, one current unit `cu`.  A quantity given by the user is a *number* in those units;
  the physical (SI) value is number × unit.  `pi`, `mu0`, `Phi0` are symbols (field elements).
-/
import Tdgl.Scalar

namespace Tdgl
variable {K : Type} [Add K] [Sub K] [Mul K] [Div K] [Neg K] [OfNat K 2] [OfNat K 4]

structure UnitSys (K : Type) where
  lu : K
  fu : K
  cu : K

/-- the numbers the user types for one physical device + drive, in a given unit system -/
structure Numbers (K : Type) where
  xi : K          -- coherence length
  lam : K         -- london lambda
  d : K           -- thickness
  B : K           -- applied field
  I : K           -- a terminal current
  Lt : K          -- the terminal's length

/-- constants -/
structure Consts (K : Type) where
  pi : K
  mu0 : K
  Phi0 : K

/-- `Bc2 = Φ0 / (2π ξ²)` in SI, from the numbers and the unit system -/
def bc2 (c : Consts K) (u : UnitSys K) (n : Numbers K) : K := c.Phi0 / (2 * c.pi * ((n.xi * u.lu) * (n.xi * u.lu)))
/-- `A0 = ξ Bc2` -/
def a0 (c : Consts K) (u : UnitSys K) (n : Numbers K) : K := (n.xi * u.lu) * bc2 c u n
/-- `K0 = 4 ξ Bc2 / (μ0 Λ)`, `Λ = λ²/d` -/
def k0 (c : Consts K) (u : UnitSys K) (n : Numbers K) : K :=
  4 * (n.xi * u.lu) * bc2 c u n / (c.mu0 * (((n.lam * u.lu) * (n.lam * u.lu)) / (n.d * u.lu)))

/-- `A_scale = field_units · length_units / (Bc2 · ξ_number · length_units)` -/
def aScale (c : Consts K) (u : UnitSys K) (n : Numbers K) : K := u.fu * u.lu / (bc2 c u n * n.xi * u.lu)
/-- `J_scale = 4 (current_units / length_units) / K0` -/
def jScale (c : Consts K) (u : UnitSys K) (n : Numbers K) : K := 4 * (u.cu / u.lu) / k0 c u n
/-- screening scale `(μ0/4π) K0/A0` converted to `1/length_units` -/
def screenScale (c : Consts K) (u : UnitSys K) (n : Numbers K) : K :=
  c.mu0 / (4 * c.pi) * k0 c u n / a0 c u n * u.lu

/-- uniform-field vector potential (numbers, in `fu·lu`) at the point with numeric coordinates `(x, y)`,
    re-centred on `(xc, yc)` (em.py re-centres on the bounding box of the evaluation points) -/
def uniformA (B x y xc yc : K) : K × K := (-(B * (y - yc)) / 2, B * (x - xc) / 2)

/-- the dimensionless link exponent of an edge from numeric end points (in `lu`) -/
def linkTheta (c : Consts K) (u : UnitSys K) (n : Numbers K) (x0 y0 x1 y1 xc yc : K) : K :=
  let A := uniformA n.B ((x0 + x1) / 2) ((y0 + y1) / 2) xc yc
  aScale c u n * A.1 * ((x1 - x0) / n.xi) + aScale c u n * A.2 * ((y1 - y0) / n.xi)

/-- terminal boundary density `J_scale · I / L_t` (balanced currents) -/
def terminalMb (c : Consts K) (u : UnitSys K) (n : Numbers K) : K := jScale c u n * n.I / n.Lt

end Tdgl
