/-
  Model of `TDGLSolver.update_mu_boundary` (tdgl/solver/solver.py): the terminal current densities are
  recomputed at every update and written to the boundary edges of a terminal only when they differ from the
  value remembered from the last write:

      for terminal in self.terminal_info:
          current_density = (-1 / terminal.length) * sum(...)          -- `terminalDensity` (Tdgl/Update.lean)
          if current_density != terminal_current_densities[terminal.name]:
              terminal_current_densities[terminal.name] = current_density
              self.mu_boundary[terminal.boundary_edge_indices] = current_density

  `cached t` is `terminal_current_densities[t]`, `written t` the value `mu_boundary` holds on the boundary edges of
  terminal `t`. `__init__` starts both at 0. The comparison is a parameter (`differs`), so the same definition
  runs in `Float` in the driver (`!=`) and is reasoned about with `decide (a ≠ b)`.
-/
import Tdgl.Update

namespace Tdgl

structure MuB (K : Type) where
  cached : Nat → K
  written : Nat → K

/-- `__init__`: `terminal_current_densities = {name: 0}`, `mu_boundary = zeros` -/
def MuB.init {K : Type} [OfNat K 0] : MuB K := ⟨fun _ => 0, fun _ => 0⟩

/-- one call of `update_mu_boundary` with the requested densities `req`, `differs` being the comparison used -/
def muBoundaryWith {K : Type} (differs : K → K → Bool) (s : MuB K) (req : Nat → K) : MuB K :=
  ⟨fun t => if differs (req t) (s.cached t) then req t else s.cached t,
   fun t => if differs (req t) (s.cached t) then req t else s.written t⟩

/-- the call as coded: exact comparison `!=` -/
def muBoundaryStep {K : Type} [DecidableEq K] (s : MuB K) (req : Nat → K) : MuB K :=
  muBoundaryWith (fun a b => decide (a ≠ b)) s req

/-- the calls of a run (both stages), one request vector per update -/
def muBoundaryRun {K : Type} [DecidableEq K] [OfNat K 0] (reqs : List (Nat → K)) : MuB K :=
  reqs.foldl muBoundaryStep MuB.init

end Tdgl
