/-
  Model of the `numba.prange` kernels (screening.py, em.py, distance.py): the outer index is distributed
  over threads in an arbitrary order; iteration `i` reads only inputs and writes only output cell `i`;
  the output buffer is `np.empty` (arbitrary initial content).
-/
import Tdgl.Scalar

namespace Tdgl
variable {K : Type}

/-- run the kernel body `f` for the outer indices in the order of `sched`, on an initial buffer `buf` -/
def runSchedule (f : Nat → K) (sched : List Nat) (buf : Nat → K) : Nat → K :=
  sched.foldl (fun b i => fun j => if j = i then f i else b j) buf

end Tdgl
