/-
  C05 — the per-step record buffer (`RunningState`, tdgl/solver/runner.py:202-237) as the loop uses it
  (`_run_stage`, runner.py:413-451: at every multiple of `save_every` the buffer is written into the frame and
  cleared; every update appends one value per column at position `step` and then `step += 1`), and the reader's
  `dt > 0` mask (tdgl/solution/data.py:416).

  Model only (no Mathlib); theorems in Tdgl/Props/C05Buffer.lean.
-/

namespace Tdgl

/-- one row of the buffer (the `dt` row; the probe rows behave identically): `width = save_every` cells -/
structure RState (K : Type) where
  step : Nat
  buf : Nat → K

variable {K : Type} [OfNat K 0]

/-- `RunningState.clear()`: position 0, all cells zero -/
def RState.clear : RState K := ⟨0, fun _ => 0⟩

/-- the variant that only resets the position (what an "avoid reallocating" edit would do) -/
def RState.clearKeep (r : RState K) : RState K := ⟨0, r.buf⟩

/-- `append(name, v)` followed by `step += 1` (one update of the solver) -/
def RState.record (r : RState K) (v : K) : RState K :=
  ⟨r.step + 1, fun i => if i = r.step then v else r.buf i⟩

/-- what `save_time_step` writes for this row: the whole buffer, `width` cells -/
def RState.flush (width : Nat) (r : RState K) : List K := (List.range width).map r.buf

/-- one save window: cleared buffer, then the values of the updates of that window -/
def window (vs : List K) : RState K := vs.foldl RState.record RState.clear

/-- the same with the non-zeroing clear, starting from whatever the previous window left -/
def windowKeep (prev : RState K) (vs : List K) : RState K := vs.foldl RState.record prev.clearKeep

/-- the reader: concatenate the rows of all frames and keep the entries with `dt > 0` -/
def readMasked [LT K] [DecidableLT K] (frames : List (List K)) : List K := frames.flatten.filter (fun x => decide (0 < x))

end Tdgl

