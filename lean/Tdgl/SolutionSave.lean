/-
  Model of saving a Solution whose output file no longer exists (tdgl/solution/solution.py `Solution.to_hdf5`,
  branch `save_tdgl_data`) and of loading the result (`Solution.from_hdf5`, `DynamicsData.from_hdf5`):

      self.tdgl_data.to_hdf5(data_grp)                       # ONE frame group: the step currently selected
      self.dynamics.to_hdf5(data_grp.require_group(f"{self.tdgl_data.step}/running_state"))   # ALL per-step records

  and on load the per-step records are the concatenation of the frames' running-state buffers with the entries
  `dt > 0` kept (Tdgl/Reader.lean), the selected frame is the last one of the file.
-/
import Tdgl.Scalar
import Tdgl.Runner
import Tdgl.Reader

namespace Tdgl
variable {K S R : Type}

/-- what a Solution holds in memory: the frame currently selected (`solve_step`) and the per-step records of the
    whole run (`dynamics`) -/
structure SolMem (K S R : Type) where
  sel : Frame K S R
  dyn : List R

/-- `Solution.to_hdf5` without a file to copy: one frame group, its running state is the whole record -/
def memSave (m : SolMem K S R) : List (Frame K S R) :=
  [{ step := m.sel.step, time := m.sel.time, snap := m.sel.snap, recs := some m.dyn }]

/-- `Solution.from_hdf5`: the last frame of the file is selected; the records are read by `readRecords` -/
def memLoad [OfNat K 0] [LT K] [DecidableLT K] (dtOf : R → K) (k : Nat) (zero : R)
    (frames : List (Frame K S R)) : Option (SolMem K S R) :=
  match frames.getLast? with
  | none => none
  | some f => some ⟨f, readRecords dtOf k zero frames⟩

/-- selecting frame `i` of a loaded multi-frame solution: the fields change, the per-step records do not -/
def selectFrame (frames : List (Frame K S R)) (i : Nat) (m : SolMem K S R) : SolMem K S R :=
  match frames[i]? with
  | none => m
  | some f => ⟨f, m.dyn⟩

end Tdgl
