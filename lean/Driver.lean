/-
  Line-protocol driver: one operation per input line, one canonical result line per
  operation.  Floats cross the boundary as IEEE-754 bit patterns (decimal UInt64).
  Sections of a line are separated by `|`, tokens by blanks.
  Imports model files only (no Mathlib), so it links as a native executable.
-/
import Tdgl.Scalar
import Tdgl.Step
import Tdgl.Operators
import Tdgl.Update
import Tdgl.Runner
import Tdgl.Adaptive

open Tdgl

instance : NatCast Float := ⟨Float.ofNat⟩

namespace Drv

def f (s : String) : Float :=
  match s.toNat? with
  | some n => Float.ofBits (UInt64.ofNat n)
  | none => Float.ofBits 0x7ff8000000000000

def b (x : Float) : String := toString x.toBits.toNat
def nat (s : String) : Nat := s.toNat?.getD 0
def cx (re im : String) : Cx Float := ⟨f re, f im⟩
def toks (s : String) : List String := (s.splitOn " ").filter (· ≠ "")
def floats (s : String) : Array Float := ((toks s).map f).toArray
def nats (s : String) : Array Nat := ((toks s).map nat).toArray
def fn (a : Array Float) : Nat → Float := fun i => a.getD i 0
def nfn (a : Array Nat) : Nat → Nat := fun i => a.getD i 0
/-- interleaved (re, im) array as a complex index function -/
def cfn (a : Array Float) : Nat → Cx Float := fun i => ⟨a.getD (2*i) 0, a.getD (2*i+1) 0⟩
def outF (n : Nat) (g : Nat → Float) : String := " ".intercalate ((List.range n).map (fun i => b (g i)))
def outC (n : Nat) (g : Nat → Cx Float) : String :=
  " ".intercalate ((List.range n).map (fun i => b (g i).re ++ " " ++ b (g i).im))

structure St where
  mesh : FVMesh Float := ⟨0, 0, fun _ => 0, fun _ => 0, fun _ => 0, fun _ => 0, fun _ => 0, 0, fun _ => 0⟩

def c02 : List String → String
  | [pr, pi, a, mu, eps, g, u, dt, lr, li] =>
    match stepSite (cx pr pi) (f a) (f mu) (f eps) (f g) (f u) (f dt) (cx lr li) with
    | none => "none"
    | some (p, x) => s!"some {b p.re} {b p.im} {b x}"
  | _ => "bad-op"

/-- physics stub for the loop model: state = number of updates done so far (global), the time step of
    update number `s` is `dts[s]`, the record is the update's number -/
def stubUpd (dts : Array Float) : Nat → Nat → Float → Float × Nat × Nat :=
  fun s _ _ => (dts.getD s 0, s + 1, s)

def showFrame (fr : Frame Float Nat Nat) : String :=
  let recs := match fr.recs with
    | none => "-"
    | some l => "[" ++ ",".intercalate (l.map toString) ++ "]"
  s!"{fr.step}:{b fr.time}:{fr.snap}:{recs}"

def showRun : RunResult Float Nat Nat → String
  | .zeroDivision => "zerodiv"
  | .outOfFuel => "fuel"
  | .done frames fin => s!"done final={fin} " ++ " ".intercalate (frames.map showFrame)

/-- dt controller driven by per-step refusal sets: `ok_i dt := dt ∉ refused_i` -/
def adaptLoop (o : AdaptOpts Float) (ds : Array Float) (refused : Array (Array Float)) :
    Nat → Nat → AdaptState Float → List String → List String
  | 0, _, _, acc => acc.reverse
  | n+1, i, stt, acc =>
    let ok : Float → Bool := fun dt => !((refused.getD i #[]).any (fun r => r.toBits == dt.toBits))
    match dtUsed o ok stt.tentative with
    | none => (s!"raise@{i}" :: acc).reverse
    | some dt =>
      let st' := adaptAfter o stt i dt (ds.getD i 0)
      adaptLoop o ds refused n (i+1) st' (s!"{b dt}:{b st'.tentative}" :: acc)

def step (st : St) (line : String) : St × String :=
  let secs := (line.trimAscii.toString.splitOn "|").map (fun s => s.trimAscii.toString)
  match secs with
  | [] => (st, "bad-op")
  | hd :: rest =>
    let m := st.mesh
    match toks hd, rest with
    | "C02" :: args, [] => (st, c02 args)
    | ["mesh", n, e, nb], [e0, e1, len, dual, area, bidx] =>
      let mesh : FVMesh Float :=
        ⟨nat n, nat e, nfn (nats e0), nfn (nats e1), fn (floats len), fn (floats dual), fn (floats area),
          nat nb, nfn (nats bidx)⟩
      ({ st with mesh := mesh }, "ok")
    | ["div"], [F] => (st, outF m.n (divRow m (fn (floats F))))
    | ["grad"], [g] => (st, outF m.E (gradEdge m (fn (floats g))))
    | ["lap"], [g] => (st, outF m.n (lapRow m (fn (floats g))))
    | ["neu"], [mb] => (st, outF m.n (neuRow m (fn (floats mb))))
    | ["cgrad"], [th, psi] => (st, outC m.E (cgradEdge m (linkOf (fn (floats th))) (cfn (floats psi))))
    | ["clap"], [fx, th, psi] =>
      let fixed := nats fx
      (st, outC m.n (clapRow m (fun r => fixed.getD r 0 == 1) (linkOf (fn (floats th))) (cfn (floats psi))))
    | ["js"], [th, psi] => (st, outF m.E (superEdge m (linkOf (fn (floats th))) (cfn (floats psi))))
    | ["rhs"], [js, dadt, mb] =>
      (st, outF m.n (poissonRhs m (fn (floats js)) (fn (floats dadt)) (fn (floats mb))))
    | ["jn"], [mu, dadt] => (st, outF m.E (normalEdge m (fn (floats mu)) (fn (floats dadt))))
    | ["tdens"], [cur, tlen] =>
      let c := floats cur
      (st, outF c.size (terminalDensity c.size (fn c) (fn (floats tlen))))
    | ["euler", g, u, dt], [fx, th, psi, a, mu, eps] =>
      let fixed := nats fx
      let r := fun r => eulerSite m (fun s => fixed.getD s 0 == 1) (linkOf (fn (floats th))) (cfn (floats psi))
        (fn (floats a)) (fn (floats mu)) (fn (floats eps)) (f g) (f u) (f dt) r
      (st, " ".intercalate ((List.range m.n).map (fun i => match r i with
        | none => "none"
        | some (p, x) => s!"{b p.re},{b p.im},{b x}")))
    | ["lapentries"], [fx, th] =>
      let fixed := nats fx
      let M := clapEntry m (fun r => fixed.getD r 0 == 1) (linkOf (fn (floats th)))
      (st, outC (m.n * m.n) (fun k => M (k / m.n) (k % m.n)))
    | ["gradentries"], [th] =>
      let M := cgradEntry m (linkOf (fn (floats th)))
      (st, outC (m.E * m.n) (fun k => M (k / m.n) (k % m.n)))
    | ["laprefresh"], fx :: th0 :: ths =>
      let fixed := nats fx
      let fm : Nat → Bool := fun r => fixed.getD r 0 == 1
      let M := ths.foldl (fun M th => refreshLap m fm M (linkOf (fn (floats th))))
        (clapEntry m fm (linkOf (fn (floats th0))))
      (st, outC (m.n * m.n) (fun k => M (k / m.n) (k % m.n)))
    | ["gradrefresh"], th0 :: ths =>
      let M := ths.foldl (fun M th => refreshGrad m M (linkOf (fn (floats th))))
        (cgradEntry m (linkOf (fn (floats th0))))
      (st, outC (m.E * m.n) (fun k => M (k / m.n) (k % m.n)))
    | ["run", k, skip, tEnd, fuel], [dts] =>
      let sk : Option Float := if skip == "-" then none else some (f skip)
      (st, showRun (run (stubUpd (floats dts)) (nat k) sk (f tEnd) (nat fuel) 0))
    | ["runold", k, tEnd, fuel], [dts] =>
      match runStageOld (stubUpd (floats dts)) true (nat k) (f tEnd) (nat fuel) 0 0 0 [] [] with
      | none => (st, "fuel")
      | some e => (st, showRun (.done e.frames e.state))
    | ["adapt", dtInit, dtMax, adaptive, window, mult, maxRetries], [ds, refused] =>
      let o : AdaptOpts Float := ⟨f dtInit, f dtMax, adaptive == "1", nat window, f mult, nat maxRetries,
        1e-10, 0.5⟩
      let dsA := floats ds
      let refA := ((refused.splitOn ";").map floats).toArray
      (st, " ".intercalate (adaptLoop o dsA refA dsA.size 0 (AdaptState.init o) []))
    | _, _ => (st, "bad-op")

end Drv

partial def loop (h : IO.FS.Stream) (out : IO.FS.Stream) (st : Drv.St) : IO Unit := do
  let line ← h.getLine
  if line.isEmpty then return ()
  let (st', r) := Drv.step st line
  out.putStrLn r
  loop h out st'

def main : IO Unit := do
  let stdin ← IO.getStdin
  let stdout ← IO.getStdout
  loop stdin stdout {}
