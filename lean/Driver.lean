/-
  Line-protocol driver: one operation per input line, one canonical result line per
  operation.  Floats cross the boundary as IEEE-754 bit patterns (decimal UInt64).
  Sections of a line are separated by `|`, tokens by blanks.
  Imports model files only (no Mathlib), so it links as a native executable.
-/
import Tdgl.Scalar
import Tdgl.Step
import Tdgl.Operators

open Tdgl

namespace Drv

def f (s : String) : Float :=
  match s.toNat? with
  | some n => Float.ofBits (UInt64.ofNat n)
  | none => Float.ofBits 0x7ff8000000000000

def b (x : Float) : String := toString x.toBits.toNat
def nat (s : String) : Nat := s.toNat?.getD 0
def cx (re im : String) : Cx Float := ⟨f re, f im⟩
def toks (s : String) : List String := (s.splitOn " ").filter (· ≠ "")
def floats (s : String) : Array Float := ((toks s).map f).toArray
def nats (s : String) : Array Nat := ((toks s).map nat).toArray
def fn (a : Array Float) : Nat → Float := fun i => a.getD i 0
def nfn (a : Array Nat) : Nat → Nat := fun i => a.getD i 0
/-- interleaved (re, im) array as a complex index function -/
def cfn (a : Array Float) : Nat → Cx Float := fun i => ⟨a.getD (2*i) 0, a.getD (2*i+1) 0⟩
def outF (n : Nat) (g : Nat → Float) : String := " ".intercalate ((List.range n).map (fun i => b (g i)))
def outC (n : Nat) (g : Nat → Cx Float) : String :=
  " ".intercalate ((List.range n).map (fun i => b (g i).re ++ " " ++ b (g i).im))

structure St where
  mesh : FVMesh Float := ⟨0, 0, fun _ => 0, fun _ => 0, fun _ => 0, fun _ => 0, fun _ => 0, 0, fun _ => 0⟩

def c02 : List String → String
  | [pr, pi, a, mu, eps, g, u, dt, lr, li] =>
    match stepSite (cx pr pi) (f a) (f mu) (f eps) (f g) (f u) (f dt) (cx lr li) with
    | none => "none"
    | some (p, x) => s!"some {b p.re} {b p.im} {b x}"
  | _ => "bad-op"

def step (st : St) (line : String) : St × String :=
  let secs := (line.trimAscii.toString.splitOn "|").map (fun s => s.trimAscii.toString)
  match secs with
  | [] => (st, "bad-op")
  | hd :: rest =>
    let m := st.mesh
    match toks hd, rest with
    | "C02" :: args, [] => (st, c02 args)
    | ["mesh", n, e, nb], [e0, e1, len, dual, area, bidx] =>
      let mesh : FVMesh Float :=
        ⟨nat n, nat e, nfn (nats e0), nfn (nats e1), fn (floats len), fn (floats dual), fn (floats area),
          nat nb, nfn (nats bidx)⟩
      ({ st with mesh := mesh }, "ok")
    | ["div"], [F] => (st, outF m.n (divRow m (fn (floats F))))
    | ["grad"], [g] => (st, outF m.E (gradEdge m (fn (floats g))))
    | ["lap"], [g] => (st, outF m.n (lapRow m (fn (floats g))))
    | ["neu"], [mb] => (st, outF m.n (neuRow m (fn (floats mb))))
    | ["cgrad"], [th, psi] => (st, outC m.E (cgradEdge m (linkOf (fn (floats th))) (cfn (floats psi))))
    | ["clap"], [fx, th, psi] =>
      let fixed := nats fx
      (st, outC m.n (clapRow m (fun r => fixed.getD r 0 == 1) (linkOf (fn (floats th))) (cfn (floats psi))))
    | ["js"], [th, psi] => (st, outF m.E (superEdge m (linkOf (fn (floats th))) (cfn (floats psi))))
    | _, _ => (st, "bad-op")

end Drv

partial def loop (h : IO.FS.Stream) (out : IO.FS.Stream) (st : Drv.St) : IO Unit := do
  let line ← h.getLine
  if line.isEmpty then return ()
  let (st', r) := Drv.step st line
  out.putStrLn r
  loop h out st'

def main : IO Unit := do
  let stdin ← IO.getStdin
  let stdout ← IO.getStdout
  loop stdin stdout {}
