/-
  Line-protocol driver: one operation per input line, one canonical result line per
  operation.  Floats cross the boundary as IEEE-754 bit patterns (decimal UInt64).
  Sections of a line are separated by `|`, tokens by blanks.
  Imports model files only (no Mathlib), so it links as a native executable.
-/
import Tdgl.Scalar
import Tdgl.Step
import Tdgl.Operators
import Tdgl.Update
import Tdgl.MuBoundary
import Tdgl.Runner
import Tdgl.Reader
import Tdgl.RunningState
import Tdgl.Adaptive
import Tdgl.AdaptiveRun
import Tdgl.Handler
import Tdgl.Options
import Tdgl.Param
import Tdgl.H5
import Tdgl.DeviceEq
import Tdgl.Screening
import Tdgl.Schedule
import Tdgl.Fields
import Tdgl.Units
import Tdgl.Geometry
import Tdgl.Topology

open Tdgl

instance : NatCast Float := ⟨Float.ofNat⟩
instance : HSMul Float Float Float := ⟨(· * ·)⟩

namespace Drv

def f (s : String) : Float :=
  match s.toNat? with
  | some n => Float.ofBits (UInt64.ofNat n)
  | none => Float.ofBits 0x7ff8000000000000

def b (x : Float) : String := toString x.toBits.toNat
def nat (s : String) : Nat := s.toNat?.getD 0
def cx (re im : String) : Cx Float := ⟨f re, f im⟩
def toks (s : String) : List String := (s.splitOn " ").filter (· ≠ "")
def floats (s : String) : Array Float := ((toks s).map f).toArray
def nats (s : String) : Array Nat := ((toks s).map nat).toArray
def fn (a : Array Float) : Nat → Float := fun i => a.getD i 0
def nfn (a : Array Nat) : Nat → Nat := fun i => a.getD i 0
/-- interleaved (re, im) array as a complex index function -/
def cfn (a : Array Float) : Nat → Cx Float := fun i => ⟨a.getD (2*i) 0, a.getD (2*i+1) 0⟩
def outF (n : Nat) (g : Nat → Float) : String := " ".intercalate ((List.range n).map (fun i => b (g i)))
def outC (n : Nat) (g : Nat → Cx Float) : String :=
  " ".intercalate ((List.range n).map (fun i => b (g i).re ++ " " ++ b (g i).im))

structure St where
  mesh : FVMesh Float := ⟨0, 0, fun _ => 0, fun _ => 0, fun _ => 0, fun _ => 0, fun _ => 0, 0, fun _ => 0⟩

def c02 : List String → String
  | [pr, pi, a, mu, eps, g, u, dt, lr, li] =>
    match stepSite (cx pr pi) (f a) (f mu) (f eps) (f g) (f u) (f dt) (cx lr li) with
    | none => "none"
    | some (p, x) => s!"some {b p.re} {b p.im} {b x}"
  | _ => "bad-op"

/-- physics stub for the loop model: state = number of updates done so far (global), the time step of
    update number `s` is `dts[s]`, the record is the update's number -/
def stubUpd (dts : Array Float) : Nat → Nat → Float → Float × Nat × Nat :=
  fun s _ _ => (dts.getD s 0, s + 1, s)

def showFrame (fr : Frame Float Nat Nat) : String :=
  let recs := match fr.recs with
    | none => "-"
    | some l => "[" ++ ",".intercalate (l.map toString) ++ "]"
  s!"{fr.step}:{b fr.time}:{fr.snap}:{recs}"

def showRun : RunResult Float Nat Nat → String
  | .zeroDivision => "zerodiv"
  | .outOfFuel => "fuel"
  | .done frames fin => s!"done final={fin} " ++ " ".intercalate (frames.map showFrame)

/-- dt controller driven by per-step refusal sets: `ok_i dt := dt ∉ refused_i` -/
def adaptLoop (o : AdaptOpts Float) (ds : Array Float) (refused : Array (Array Float)) :
    Nat → Nat → AdaptState Float → List String → List String
  | 0, _, _, acc => acc.reverse
  | n+1, i, stt, acc =>
    let ok : Float → Bool := fun dt => !((refused.getD i #[]).any (fun r => r.toBits == dt.toBits))
    match dtUsed o ok stt.tentative with
    | none => (s!"raise@{i}" :: acc).reverse
    | some dt =>
      let st' := adaptAfter o stt i dt (ds.getD i 0)
      adaptLoop o ds refused n (i+1) st' (s!"{b dt}:{b st'.tentative}" :: acc)

def parseFault (s : String) : Option Fault :=
  if s == "error" then some .error else if s == "interrupt" then some .interrupt else none

/-- `"a:b:kind"` triples for update faults (stage, index), `"j:kind"` pairs for writer faults -/
def parseFaults (us ss : String) : Faults :=
  let ul := (toks us).filterMap (fun t => match t.splitOn ":" with
    | [a, i, k] => (parseFault k).map (fun f => (nat a, nat i, f))
    | _ => none)
  let sl := (toks ss).filterMap (fun t => match t.splitOn ":" with
    | [j, k] => (parseFault k).map (fun f => (nat j, f))
    | _ => none)
  ⟨fun a i => (ul.find? (fun x => x.1 == a && x.2.1 == i)).map (·.2.2),
   fun j => (sl.find? (fun x => x.1 == j)).map (·.2)⟩

/-- existing files: tokens `serial:tmp` with serial `-` for none, tmp 0/1 -/
def parseFS (s : String) : FS :=
  let l := (toks s).filterMap (fun t => match t.splitOn ":" with
    | [a, bb] => some ((if a == "-" then none else some (nat a) : Option Nat), bb == "1")
    | _ => none)
  fun n => if l.contains n then some {} else none

def showSer : Option Nat → String
  | none => "-"
  | some k => toString k

def showResult : SolveResult → String
  | .solution => "solution"
  | .noSolution => "none"
  | .exception .error => "exc:error"
  | .exception .interrupt => "exc:interrupt"
  | .stuck => "stuck"

def parseSolver (s : String) : SolverKind :=
  if s == "superlu" then .superlu else if s == "umfpack" then .umfpack else if s == "pardiso" then .pardiso
  else if s == "cupy" then .cupy else .unknown

def showOptErr : OptErr → String
  | .dtInitGtMax => "dt_init" | .terminalPsi => "terminal_psi" | .multiplier => "multiplier" | .drag => "drag"
  | .stepSize => "step_size" | .tolerance => "tolerance" | .gpuNoCupy => "gpu" | .unknownSolver => "solver"
  | .noUmfpack => "umfpack" | .noPardiso => "pardiso" | .cupyNeedsGpu => "cupy_gpu"

/-- prefix-encoded expression trees: `( op l r )` with op index 0..4, leaves P2 P3 PT I F -/
partial def parseTree : List String → Option (PExpr Float × List String)
  | "(" :: op :: rest =>
    match parseTree rest with
    | none => none
    | some (l, rest1) =>
      match parseTree rest1 with
      | none => none
      | some (r, ")" :: rest2) =>
        let o : BinOp := match nat op with | 0 => .add | 1 => .sub | 2 => .mul | 3 => .div | _ => .pow
        some (.comp l o r, rest2)
      | some _ => none
  | "P2" :: rest => some (.leaf ⟨0, false, false⟩, rest)
  | "P3" :: rest => some (.leaf ⟨1, true, false⟩, rest)
  | "PT" :: rest => some (.leaf ⟨2, true, true⟩, rest)
  | "I" :: rest => some (.num 3, rest)
  | "F" :: rest => some (.num 1.25, rest)
  | _ => none

/-- the harness' leaf functions f2, f3, ft, in Python's evaluation order -/
def paramEnv : Nat → Float → Float → Float → Float → Float
  | 0, x, y, _, _ => 1.5 + 0.25 * x - 0.5 * y
  | 1, x, y, z, _ => 2.0 + 0.1 * x * y + 0.3 * z
  | _, x, _, z, t => 0.75 + 0.05 * x + 0.2 * t + 0 * z

def floatOp : BinOp → Float → Float → Float
  | .add, a, c => a + c | .sub, a, c => a - c | .mul, a, c => a * c | .div, a, c => a / c
  | .pow, a, c => Float.pow a c

def optS (s : String) : Option String := if s == "-" then none else some s
def keysOf (s : H5.Store String) : String := ",".intercalate ((s.map (·.1)).toArray.qsort (· < ·)).toList
def showOpt : Option String → String
  | none => "None"
  | some v => v

/-- C14: encode a record with the model, list the keys it writes, decode it again and report the
    optional fields -/
def h5cmd : List String → String
  | ["layer", cond] =>
    let l : H5.LayerRec String := ⟨"ll", "xi", "d", "u", "g", "z0", optS cond⟩
    let s := H5.encodeLayer l
    match H5.decodeLayer s with
    | some r => s!"keys={keysOf s} conductivity={showOpt r.conductivity}"
    | none => "decode-failed"
  | ["poly", name] =>
    let p : H5.PolyRec String := ⟨optS name, "True", "pts"⟩
    let s := H5.encodePoly p
    match H5.decodePoly s with
    | some r => s!"keys={keysOf s} name={showOpt r.name}"
    | none => "decode-failed"
  | ["opts", tp, out] =>
    let o : H5.OptsRec String := ⟨optS tp, optS out, [("solve_time", "1"), ("dt_init", "2")]⟩
    let s := H5.encodeOpts o
    let r := H5.decodeOpts ["solve_time", "dt_init"] s
    s!"keys={keysOf s} terminal_psi={showOpt r.terminalPsi} output_file={showOpt r.outputFile}"
  | ["mesh", compress] =>
    let m : H5.MeshRec String := ⟨"s", "e", "b", "a", "d", "em", "vf", "vs"⟩
    let s := H5.encodeMesh (compress == "1") m
    s!"keys={keysOf s} restorable={H5.isRestorable s}"
  | _ => "bad-op"

/-- a device for `deveq`: attrs = "name length_units layer film probe(-|hash)", polygons = "name=hash …"
    (the hash stands for the polygon's vertex data and mesh flag, the layer hash for its seven constants) -/
def devOf (attrs holes terms : String) : Option (H5.DevRec String) :=
  let polys (s : String) : List (String × H5.PolyRec String) :=
    (toks s).map (fun t => match t.splitOn "=" with
      | [n, h] => (n, ⟨some n, "m", h⟩)
      | _ => (t, ⟨none, "m", ""⟩))
  match toks attrs with
  | [n, lu, layer, film, probe] =>
    some ⟨n, lu, ⟨layer, "", "", "", "", "", none⟩, ⟨some "film", "m", film⟩, polys terms, polys holes, optS probe⟩
  | _ => none

def step (st : St) (line : String) : St × String :=
  let secs := (line.trimAscii.toString.splitOn "|").map (fun s => s.trimAscii.toString)
  match secs with
  | [] => (st, "bad-op")
  | hd :: rest =>
    let m := st.mesh
    match toks hd, rest with
    | "C02" :: args, [] => (st, c02 args)
    | ["mesh", n, e, nb], [e0, e1, len, dual, area, bidx] =>
      let mesh : FVMesh Float :=
        ⟨nat n, nat e, nfn (nats e0), nfn (nats e1), fn (floats len), fn (floats dual), fn (floats area),
          nat nb, nfn (nats bidx)⟩
      ({ st with mesh := mesh }, "ok")
    | ["div"], [F] => (st, outF m.n (divRow m (fn (floats F))))
    | ["grad"], [g] => (st, outF m.E (gradEdge m (fn (floats g))))
    | ["lap"], [g] => (st, outF m.n (lapRow m (fn (floats g))))
    | ["neu"], [mb] => (st, outF m.n (neuRow m (fn (floats mb))))
    | ["cgrad"], [th, psi] => (st, outC m.E (cgradEdge m (linkOf (fn (floats th))) (cfn (floats psi))))
    | ["clap"], [fx, th, psi] =>
      let fixed := nats fx
      (st, outC m.n (clapRow m (fun r => fixed.getD r 0 == 1) (linkOf (fn (floats th))) (cfn (floats psi))))
    | ["js"], [th, psi] => (st, outF m.E (superEdge m (linkOf (fn (floats th))) (cfn (floats psi))))
    | ["rhs"], [js, dadt, mb] =>
      (st, outF m.n (poissonRhs m (fn (floats js)) (fn (floats dadt)) (fn (floats mb))))
    | ["jn"], [mu, dadt] => (st, outF m.E (normalEdge m (fn (floats mu)) (fn (floats dadt))))
    | ["tdens"], [cur, tlen] =>
      let c := floats cur
      (st, outF c.size (terminalDensity c.size (fn c) (fn (floats tlen))))
    | ["euler", g, u, dt], [fx, th, psi, a, mu, eps] =>
      let fixed := nats fx
      let r := fun r => eulerSite m (fun s => fixed.getD s 0 == 1) (linkOf (fn (floats th))) (cfn (floats psi))
        (fn (floats a)) (fn (floats mu)) (fn (floats eps)) (f g) (f u) (f dt) r
      (st, " ".intercalate ((List.range m.n).map (fun i => match r i with
        | none => "none"
        | some (p, x) => s!"{b p.re},{b p.im},{b x}")))
    | ["lapentries"], [fx, th] =>
      let fixed := nats fx
      let M := clapEntry m (fun r => fixed.getD r 0 == 1) (linkOf (fn (floats th)))
      (st, outC (m.n * m.n) (fun k => M (k / m.n) (k % m.n)))
    | ["gradentries"], [th] =>
      let M := cgradEntry m (linkOf (fn (floats th)))
      (st, outC (m.E * m.n) (fun k => M (k / m.n) (k % m.n)))
    | ["laprefresh"], fx :: th0 :: ths =>
      let fixed := nats fx
      let fm : Nat → Bool := fun r => fixed.getD r 0 == 1
      let M := ths.foldl (fun M th => refreshLap m fm M (linkOf (fn (floats th))))
        (clapEntry m fm (linkOf (fn (floats th0))))
      (st, outC (m.n * m.n) (fun k => M (k / m.n) (k % m.n)))
    | ["gradrefresh"], th0 :: ths =>
      let M := ths.foldl (fun M th => refreshGrad m M (linkOf (fn (floats th))))
        (cgradEntry m (linkOf (fn (floats th0))))
      (st, outC (m.E * m.n) (fun k => M (k / m.n) (k % m.n)))
    | ["run", k, skip, tEnd, fuel], [dts] =>
      let sk : Option Float := if skip == "-" then none else some (f skip)
      (st, showRun (run (stubUpd (floats dts)) (nat k) sk (f tEnd) (nat fuel) 0))
    | ["times", k], [dts] =>
      (st, " ".intercalate ((solutionTimes (nat k) (floats dts).toList).map b))
    | ["runold", k, tEnd, fuel], [dts] =>
      match runStageOld (stubUpd (floats dts)) true (nat k) (f tEnd) (nat fuel) 0 0 0 [] [] with
      | none => (st, "fuel")
      | some e => (st, showRun (.done e.frames e.state))
    | "h5" :: args, [] => (st, h5cmd args)
    | ["deveq"], [aa, ah, at_, ba, bh, bt] =>
      match devOf aa ah at_, devOf ba bh bt with
      | some a, some d => (st, s!"eq={H5.devEq a d} guard={(H5.seedGuard a d).isNone}")
      | _, _ => (st, "bad-op")
    | ["kernA"], [jx, jy, area, sx, sy, cx, cy] =>
      -- A_induced for every edge centre, both components, evaluated in a permuted outer order
      let (jxA, jyA, aA, sxA, syA, cxA, cyA) := (floats jx, floats jy, floats area, floats sx, floats sy, floats cx, floats cy)
      let n := aA.size
      let m := cxA.size
      let body : Nat → Float := fun idx =>
        let i := idx / 2
        kernelA n (if idx % 2 == 0 then fn jxA else fn jyA) (fn aA) (fn sxA) (fn syA) (cxA.getD i 0) (cyA.getD i 0)
      -- reversed schedule on a garbage buffer: the result must not depend on either (C09)
      let sched := (List.range (2 * m)).reverse
      let out := runSchedule body sched (fun _ => 12345.678)
      (st, outF (2 * m) out)
    | ["screen", tol, maxIt], [errs] =>
      -- replay of the screening loop on an observed error sequence (see harness/c13.py)
      let e := floats errs
      -- vector fields are scalars here: with alpha = beta = 1 the iterate counts the iterations, and the
      -- error functional reads the observed error of that iteration
      let phys : Float → Float := fun A => A
      let kern : Float → Float := fun J => J + 1
      let errOf : Float → Float → Float := fun _ A => e.getD (A.toUInt64.toNat - 1) 1e300
      match screenLoop (1 : Float) (1 : Float) (f tol) (nat maxIt) phys kern errOf (e.size + 5) 0
          (⟨0, 0⟩ : PolyakState Float) (0 : Float) none with
      | .converged _ _ it _ => (st, s!"converged {it}")
      | .failed it => (st, s!"failed {it}")
      | .outOfFuel => (st, "fuel")
    | ["mub", nT], [reqs] =>
      -- update_mu_boundary called with successive request vectors (nT densities each), comparison `!=` as coded;
      -- answer: the value held on the boundary of every terminal after every call
      let T := nat nT
      let r := floats reqs
      let calls := if T == 0 then 0 else r.size / T
      let stepF := fun (acc : MuB Float × List String) (c : Nat) =>
        let s' := muBoundaryWith (fun x y => x != y) acc.1 (fun t => r.getD (c * T + t) 0)
        (s', acc.2 ++ (List.range T).map (fun t => b (s'.written t)))
      (st, " ".intercalate ((List.range calls).foldl stepF ((MuB.init : MuB Float), [])).2)
    | ["onsite"], [e0s, e1s, dirs, qs, sites] =>
      -- one Cartesian component of Mesh.get_quantity_on_site at the listed sites
      let (e0, e1, d, q) := (nats e0s, nats e1s, floats dirs, floats qs)
      (st, " ".intercalate ((toks sites).map (fun t => b (onSite e0.size (nfn e0) (nfn e1) (fn d) (fn q) (nat t)))))
    | ["bsz"], [pref, dx, dy, jx, jy] =>
      let p := floats pref
      (st, b (bsZ p.size (fn p) (fn (floats dx)) (fn (floats dy)) (fn (floats jx)) (fn (floats jy))))
    | ["bsvec"], [pref, dx, dy, dz, jx, jy] =>
      let p := floats pref
      let r := bsVec p.size (fn p) (fn (floats dx)) (fn (floats dy)) (fn (floats dz)) (fn (floats jx)) (fn (floats jy))
      (st, s!"{b r.1} {b r.2.1} {b r.2.2}")
    | ["area2"], [xs, ys] =>
      let (xa, ya) := (floats xs, floats ys)
      let pts : List (Float × Float) := (List.range xa.size).map (fun i => (xa.getD i 0, ya.getD i 0))
      (st, b (signedArea2 pts))
    | ["affine", a, bb, c, d, tx, ty], [xs, ys] =>
      let (xa, ya) := (floats xs, floats ys)
      let pts : List (Float × Float) := (List.range xa.size).map (fun i => (xa.getD i 0, ya.getD i 0))
      let T : Affine Float := ⟨f a, f bb, f c, f d, f tx, f ty⟩
      (st, b (signedArea2 (pts.map T.apply)))
    | ["rs", width], [ops] =>
      -- the per-step record buffer: ops  a<bits> = append + step += 1, c = clear, f = flush (prints the row)
      let w := nat width
      let (_, outs) := (toks ops).foldl (fun (acc : RState Float × List String) t =>
        let (r, o) := acc
        if t == "c" then (RState.clear, o)
        else if t == "f" then (r, o ++ [" ".intercalate ((r.flush w).map b)])
        else (r.record (f (t.drop 1).toString), o)) ((RState.clear : RState Float), [])
      (st, " ; ".intercalate outs)
    | ["topo"], [tris] =>
      -- connectivity from the triangle list: edges | boundary edge indices | boundary sites | #adjacent triangles per edge
      let a := nats tris
      let ts : List Tri := (List.range (a.size / 3)).map (fun i => (a.getD (3*i) 0, a.getD (3*i+1) 0, a.getD (3*i+2) 0))
      let es := getEdges ts
      let sn (l : List Nat) := " ".intercalate (l.map toString)
      (st, sn (es.flatMap (fun e => [e.1, e.2])) ++ " | " ++ sn (boundaryEdgeIndices ts) ++ " | " ++ sn (boundarySites ts)
        ++ " | " ++ sn (es.map (fun e => sideCount ts e)))
    | ["tri"], [coords] =>
      -- circumcentre, doubled area and the three doubled kite areas of one triangle
      let c := floats coords
      let (A, B, C) : (Float × Float) × (Float × Float) × (Float × Float) :=
        ((c.getD 0 0, c.getD 1 0), (c.getD 2 0, c.getD 3 0), (c.getD 4 0, c.getD 5 0))
      let O := circumcentre A B C
      (st, s!"{b O.1} {b O.2} {b (triArea2 A B C)} {b (kite2 A B C)} {b (kite2 B C A)} {b (kite2 C A B)}")
    | ["dual"], [coords] =>
      -- dual edge of the edge AB: inner (A B C D, triangles (A,B,C) and (B,A,D)) -> s1 s2 inCircle dualInner2;
      -- boundary (A B C) -> s1 dualBoundary2            (Tdgl/Geometry.lean, theorems in Props/C07Delaunay.lean)
      let c := floats coords
      let P (i : Nat) : Float × Float := (c.getD (2*i) 0, c.getD (2*i+1) 0)
      if c.size == 8 then
        (st, s!"{b (ccOffset (P 0) (P 1) (P 2))} {b (ccOffset (P 1) (P 0) (P 3))} {b (inCircle (P 0) (P 1) (P 2) (P 3))} {b (dualInner2 (P 0) (P 1) (P 2) (P 3))}")
      else if c.size == 6 then
        (st, s!"{b (ccOffset (P 0) (P 1) (P 2))} {b (dualBoundary2 (P 0) (P 1) (P 2))}")
      else (st, "bad-op")
    | ["units", pi, mu0, phi0, lu, fu, cu, xi, lam, d, bb, ii, lt], [] =>
      let c : Consts Float := ⟨f pi, f mu0, f phi0⟩
      let u : UnitSys Float := ⟨f lu, f fu, f cu⟩
      let n : Numbers Float := ⟨f xi, f lam, f d, f bb, f ii, f lt⟩
      (st, s!"{b (bc2 c u n)} {b (a0 c u n)} {b (k0 c u n)} {b (aScale c u n)} {b (jScale c u n)} {b (screenScale c u n)} {b (terminalMb c u n)}")
    | ["theta", pi, mu0, phi0, lu, fu, cu, xi, lam, d, bb], [coords] =>
      let c : Consts Float := ⟨f pi, f mu0, f phi0⟩
      let u : UnitSys Float := ⟨f lu, f fu, f cu⟩
      let n : Numbers Float := ⟨f xi, f lam, f d, f bb, 0, 1⟩
      let q := floats coords
      (st, b (linkTheta c u n (q.getD 0 0) (q.getD 1 0) (q.getD 2 0) (q.getD 3 0) (q.getD 4 0) (q.getD 5 0)))
    | ["param", x, y, z, t], [tree] =>
      match parseTree (toks tree) with
      | some (e, []) =>
        let a : Args Float := ⟨f x, f y, some (f z), if e.td then some (f t) else none⟩
        let v := match PExpr.eval paramEnv floatOp e a with
          | .ok v => b v
          | .error .typeError => "err:type"
          | .error .attributeError => "err:attr"
        (st, s!"td={if e.td then 1 else 0} {v}")
      | _ => (st, "bad-tree")
    | ["validate", dtInit, dtMax, tp, mult, drag, stepSize, tol, gpu, solver, hc, hu, hp], [] =>
      let o : Opts Float := ⟨f dtInit, f dtMax, (if tp == "-" then none else some (f tp)), f mult, f drag,
        f stepSize, f tol, gpu == "1", parseSolver solver, hc == "1", hu == "1", hp == "1"⟩
      (st, match o.validate with | none => "ok" | some e => showOptErr e)
    | ["curacc", relTol], [cur] =>
      (st, toString (currentsAccepted (f relTol) (floats cur).toList))
    | ["solvef", k, skip, tEnd, fuel], [dts, ufaults, sfaults, existing] =>
      let sk : Option Float := if skip == "-" then none else some (f skip)
      let fs0 := parseFS existing
      match solveF (stubUpd (floats dts)) (parseFaults ufaults sfaults) (nat k) sk (f tEnd) (nat fuel) 0 fs0 with
      | none => (st, "nofile")
      | some (res, ser, fs') =>
        let out := match fs' (ser, false) with
          | some h => s!"frames=[{",".intercalate (h.frames.map toString)}] open={h.isOpen} partial={h.partialFrame}"
          | none => "missing"
        let tmp := match fs' (ser, true) with
          | some _ => "tmp-present"
          | none => "tmp-absent"
        (st, s!"{showResult res} ser={showSer ser} {out} {tmp}")
    | ["astep", g, u, dtInit, dtMax, adaptive, window, mult, maxRetries, stepIdx, tentative, tp], [fx, th, psi, muOld, eps, mb, hist, muNew] =>
      -- one whole adaptive update (Tdgl/AdaptiveRun.lean `adaptiveStep`): retry loop, Euler step on all sites, terminal
      -- re-imposition, observables, controller.  The sparse solve is external: its answer `muNew` is handed in.
      let fixed := nats fx
      let tpv : Option (Cx Float) := match tp.splitOn "," with
        | [re, im] => some ⟨f re, f im⟩
        | _ => none
      let o : AdaptOpts Float := ⟨f dtInit, f dtMax, adaptive == "1", nat window, f mult, nat maxRetries, 1e-10, 0.5⟩
      let muN := floats muNew
      let s : AState Float := ⟨⟨cfn (floats psi), fn (floats muOld), fun _ => 0, fun _ => 0⟩, ⟨f tentative, (floats hist).toList⟩⟩
      match adaptiveStep m (fun r => fixed.getD r 0 == 1) tpv (linkOf (fn (floats th))) (fun _ => fn muN) (fn (floats eps))
          (f g) (f u) (fn (floats mb)) o (nat stepIdx) s with
      | none => (st, "raise")
      | some (dt, s') =>
        (st, s!"{b dt} {b s'.ctl.tentative} {b (s'.ctl.hist.getLast?.getD 0)} {s'.ctl.hist.length} | {outC m.n s'.phys.psi} | {outF m.E s'.phys.js} | {outF m.E s'.phys.jn}")
    | ["adapt", dtInit, dtMax, adaptive, window, mult, maxRetries], [ds, refused] =>
      let o : AdaptOpts Float := ⟨f dtInit, f dtMax, adaptive == "1", nat window, f mult, nat maxRetries,
        1e-10, 0.5⟩
      let dsA := floats ds
      let refA := ((refused.splitOn ";").map floats).toArray
      (st, " ".intercalate (adaptLoop o dsA refA dsA.size 0 (AdaptState.init o) []))
    | _, _ => (st, "bad-op")

end Drv

partial def loop (h : IO.FS.Stream) (out : IO.FS.Stream) (st : Drv.St) : IO Unit := do
  let line ← h.getLine
  if line.isEmpty then return ()
  let (st', r) := Drv.step st line
  out.putStrLn r
  loop h out st'

def main : IO Unit := do
  let stdin ← IO.getStdin
  let stdout ← IO.getStdout
  loop stdin stdout {}
