/-
  Line-protocol driver: one operation per input line, one canonical result line per
  operation.  Floats cross the boundary as IEEE-754 bit patterns (decimal UInt64).
  Imports model files only (no Mathlib), so it links as a native executable.
-/
import Tdgl.Scalar
import Tdgl.Step

open Tdgl

namespace Drv

def f (s : String) : Float :=
  match s.toNat? with
  | some n => Float.ofBits (UInt64.ofNat n)
  | none => Float.ofBits 0x7ff8000000000000

def b (x : Float) : String := toString x.toBits.toNat

def nat (s : String) : Nat := s.toNat?.getD 0

def cx (re im : String) : Cx Float := ⟨f re, f im⟩

def c02 : List String → String
  | [pr, pi, a, mu, eps, g, u, dt, lr, li] =>
    match stepSite (cx pr pi) (f a) (f mu) (f eps) (f g) (f u) (f dt) (cx lr li) with
    | none => "none"
    | some (p, x) => s!"some {b p.re} {b p.im} {b x}"
  | _ => "bad-op"

def step (line : String) : String :=
  match (line.trimAscii.toString.splitOn " ").filter (· ≠ "") with
  | "C02" :: rest => c02 rest
  | _ => "bad-op"

end Drv

partial def loop (h : IO.FS.Stream) (out : IO.FS.Stream) : IO Unit := do
  let line ← h.getLine
  if line.isEmpty then return ()
  out.putStrLn (Drv.step line)
  loop h out

def main : IO Unit := do
  let stdin ← IO.getStdin
  let stdout ← IO.getStdout
  loop stdin stdout
